#!/bin/bash
# seeds_sweep.sh [tier] [seeds...] : every claimed check on the unchanged tree, from a fresh process per run, with several
# VERIF_SEED values; a check is silent when it exits 0 and prints no VIOLATION line. Writes selftest/seeds.tsv
set -u
cd /verif
TIER=${1:-quick}; shift || true
SEEDS=${*:-"1 2 3 7 12345"}
if ! git -C /repo diff --quiet; then echo "/repo has local changes; refusing"; exit 2; fi
./check --build || exit 2
OUT=selftest/seeds.tsv
printf "property\ttier\tseed\texit\tviolations\twall_s\tsummary\n" > $OUT
bad=0
for p in ${PROPS:-$(python3 -c "import json;print(' '.join(c['property_id'] for c in json.load(open('MANIFEST.json'))['checks']))")}; do
  for s in $SEEDS; do
    t0=$(date +%s)
    VERIF_SEED=$s ./check $p $TIER > /tmp/sweep_$p.out 2>&1; rc=$?
    t1=$(date +%s)
    nv=$(grep -c "^VIOLATION" /tmp/sweep_$p.out)
    sum=$(grep -E "^$p (quick|thorough):" /tmp/sweep_$p.out | tail -1)
    printf "%s\t%s\t%s\t%s\t%s\t%s\t%s\n" $p $TIER $s $rc $nv $((t1-t0)) "$sum" >> $OUT
    if [ $rc -ne 0 ] || [ $nv -ne 0 ]; then bad=1; echo "NOT SILENT: $p seed=$s exit=$rc violations=$nv"; cp /tmp/sweep_$p.out selftest/notsilent_${p}_$s.out; fi
    rm -f /tmp/sweep_$p.out
  done
done
rm -rf /verif/replays
exit $bad
