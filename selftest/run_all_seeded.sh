#!/bin/bash
# run_all_seeded.sh [tier] [ids...] : apply every confirmed seeded change of /verif/seeded to /repo in turn, run the
# quick check of its property, undo the change, and write selftest/results.tsv
# (id, property, patch used, exit code, number of VIOLATION lines, first signature)
set -u
cd /verif
TIER=${1:-quick}; shift || true
IDS=${*:-$(ls seeded)}
OUT=selftest/results.tsv
[ -f $OUT ] || printf "id\tproperty\tpatch\texit\tviolations\tfirst_signature\n" > $OUT
if ! git -C /repo diff --quiet; then echo "/repo has local changes; refusing"; exit 2; fi
for id in $IDS; do
  d=seeded/$id
  [ -f $d/meta.json ] || continue
  prop=$(python3 -c "import json;print(json.load(open('$d/meta.json'))['property'])")
  patch=$d/patch.diff; [ -f $d/patch.rebased.diff ] && patch=$d/patch.rebased.diff
  if ! git -C /repo apply --check /verif/$patch 2>/dev/null; then
    printf "%s\t%s\t%s\t%s\t%s\t%s\n" $id $prop $(basename $patch) "apply-failed" 0 "-" >> $OUT; continue
  fi
  git -C /repo apply /verif/$patch
  ./check $prop $TIER > /tmp/seeded_$id.out 2>&1; rc=$?
  git -C /repo checkout -- .
  nv=$(grep -c "^VIOLATION" /tmp/seeded_$id.out)
  sig=$(grep -m1 "signature:" /tmp/seeded_$id.out | sed 's/^ *signature: *//' | cut -c1-120)
  # drop an earlier line for the same id
  grep -v "^$id	" $OUT > $OUT.tmp; mv $OUT.tmp $OUT
  printf "%s\t%s\t%s\t%s\t%s\t%s\n" $id $prop $(basename $patch) $rc $nv "${sig:--}" >> $OUT
  echo "$id $prop exit=$rc violations=$nv $sig"
  rm -f /tmp/seeded_$id.out
done
rm -rf /verif/replays
# the evidence files now describe runs on changed trees: the caller re-runs the checks on the clean tree
