#!/bin/bash
# confirm_seeded.sh <worktree> <A|B> <dest-id>
# confirms in the scratch worktree: demo passes on clean tree, fails with the patch, existing suite passes with the patch.
# then stores patch.diff, demo.rs, meta.json under /verif/seeded/<dest-id>/ with a confirmation record
set -u
WT=$1; V=$2; ID=$3
D=$WT/deliver/$V
export CARGO_NET_OFFLINE=true CARGO_TARGET_DIR=$WT/target
cd $WT || exit 2
git checkout -q -- . 
CRATE=biscuit-auth
grep -q '"biscuit-capi' $D/meta.json 2>/dev/null && grep -q "biscuit_capi\|biscuit-capi" $D/demo.rs && CRATE=biscuit-capi
mkdir -p $WT/$CRATE/tests
cp $D/demo.rs $WT/$CRATE/tests/seeded_demo.rs
clean=$(cargo test --offline -j8 -p $CRATE --test seeded_demo 2>&1 | grep -E "^test result" | tail -1)
git apply $D/patch.diff || { echo "APPLY FAILED"; exit 2; }
patched=$(cargo test --offline -j8 -p $CRATE --test seeded_demo 2>&1 | grep -E "^test result" | tail -1)
rm -f $WT/$CRATE/tests/seeded_demo.rs
suite=$(cargo test --offline -j8 --workspace --no-fail-fast 2>&1 | grep -E "^test result|FAILED|failed" | grep -v "^test result: ok" | head -5)
git checkout -q -- .
echo "clean: $clean"; echo "patched: $patched"; echo "suite-non-ok-lines: [$suite]"
mkdir -p /verif/seeded/$ID
cp $D/patch.diff $D/demo.rs $D/meta.json /verif/seeded/$ID/
python3 - "$ID" "$clean" "$patched" "$suite" <<'PY'
import json,sys
i,clean,patched,suite=sys.argv[1:5]
p=f'/verif/seeded/{i}/meta.json'
m=json.load(open(p))
m['confirmed']={'demo_on_clean_tree':clean,'demo_with_patch':patched,'existing_suite_with_patch_non_ok_lines':suite,
  'how':'selftest/confirm_seeded.sh in the scratch worktree: cargo test -p <crate> --test seeded_demo on clean tree and with patch; cargo test --workspace --no-fail-fast with patch'}
json.dump(m,open(p,'w'),indent=1)
PY
