#!/bin/bash
# confirm_seeded.sh <worktree> <A|B> <dest-id>
# confirms in the scratch worktree: demo passes on clean tree, fails with the patch, existing suite passes with the patch.
# then stores patch.diff, demo.rs, meta.json under /verif/seeded/<dest-id>/ with a confirmation record.
# The pinned suite has tests that use the 1 ms default time limit and fail under machine load on the clean tree too: the
# suite is run up to three times and a test counts as failing only when it fails in every run.
set -u
WT=$1; V=$2; ID=$3
D=$WT/deliver/$V
export CARGO_NET_OFFLINE=true CARGO_TARGET_DIR=$WT/target
cd $WT || exit 2
git checkout -q -- .
CRATE=biscuit-auth
grep -q '"biscuit-capi' $D/meta.json 2>/dev/null && grep -q "biscuit_capi\|biscuit-capi" $D/demo.rs && CRATE=biscuit-capi
mkdir -p $WT/$CRATE/tests
cp $D/demo.rs $WT/$CRATE/tests/seeded_demo.rs
clean=$(cargo test --offline -j8 -p $CRATE --test seeded_demo 2>&1 | grep -E "^test result" | tail -1)
git apply $D/patch.diff || { echo "APPLY FAILED"; exit 2; }
patched=$(cargo test --offline -j8 -p $CRATE --test seeded_demo 2>&1 | grep -E "^test result" | tail -1)
rm -f $WT/$CRATE/tests/seeded_demo.rs
failing=""
for run in 1 2 3; do
  cargo test --offline -j8 --workspace --no-fail-fast 2>&1 | grep -E "^test .* \.\.\. FAILED|^error: could not compile|^error\[" | sort -u > /tmp/confirm_$$.run
  if [ $run = 1 ]; then cp /tmp/confirm_$$.run /tmp/confirm_$$.all; else comm -12 /tmp/confirm_$$.all /tmp/confirm_$$.run > /tmp/confirm_$$.tmp; mv /tmp/confirm_$$.tmp /tmp/confirm_$$.all; fi
  [ -s /tmp/confirm_$$.all ] || break
done
suite=$(head -5 /tmp/confirm_$$.all | tr '\n' ';')
rm -f /tmp/confirm_$$.*
git checkout -q -- .
echo "clean: $clean"; echo "patched: $patched"; echo "suite-tests-failing-in-every-run: [$suite]"
mkdir -p /verif/seeded/$ID
cp $D/patch.diff $D/demo.rs $D/meta.json /verif/seeded/$ID/
python3 - "$ID" "$clean" "$patched" "$suite" <<'PY'
import json,sys
i,clean,patched,suite=sys.argv[1:5]
p=f'/verif/seeded/{i}/meta.json'
m=json.load(open(p))
m['confirmed']={'demo_on_clean_tree':clean,'demo_with_patch':patched,'existing_suite_with_patch_tests_failing_in_every_run':suite,
  'how':'selftest/confirm_seeded.sh in the scratch worktree: cargo test -p <crate> --test seeded_demo on clean tree and with patch; cargo test --workspace --no-fail-fast with patch, up to 3 runs, a test counts as failing when it fails in every run (the suite has load-sensitive tests using a 1 ms time limit)'}
json.dump(m,open(p,'w'),indent=1)
PY
