#!/bin/bash
# try_patch.sh <patch.diff> <Cxx> [tier]  : apply a seeded change to /repo, run the check, undo the change
set -u
P=$1; C=$2; T=${3:-quick}
git -C /repo apply "$P" || { echo "APPLY FAILED"; exit 2; }
cd /verif && ./check $C $T > /tmp/try_$C.out 2>&1; rc=$?
git -C /repo checkout -- .
grep -E "^VIOLATION|^KNOWN|^C[0-9]+ (quick|thorough):|signature:" /tmp/try_$C.out | cut -c1-220 | head -12
echo "exit=$rc"
