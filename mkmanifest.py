#!/usr/bin/env python3
"""Regenerates MANIFEST.json from the table below (kept valid at all times)."""
import json, sys
CLAIMED = {
 "C01": dict(level="fault_enumeration", tech="fault enumeration by generated structured wire mutations (proptest tape) with a signed-blocks equality oracle and an independent verifier (RefCrypto)",
   text="For generated tokens (all algorithm mixes, first/third-party blocks, sealed or not) and a donor token (independent, same root, or sibling attenuation), every mutation kind of the catalogue (50 kinds: payload, next key, signature, version, external signature, container, proof, byte level) is applied at every block index and the variant is presented on all three entry points, plus four foreign root keys. An accepted variant must carry exactly the signed blocks of a legitimately issued token of the case, and RefCrypto must accept what the library accepted.",
   note="signature primitives trusted; mutation catalogue + random parameters, not all byte strings; v0 blocks are not required to bind the previous signature", ref="4 C01"),
 "C08": dict(level="fault_enumeration", tech="property-based testing of seal (metamorphic sealed-vs-unsealed oracle) + fault enumeration of post-seal operations and wire mutations",
   text="Every generated token is sealed; the sealed token must verify on all entry points with unchanged blocks, accessors and revocation ids, authorize exactly like the unsealed twin under generated authorizers, refuse all 12 extending operations on three paths (in memory, reloaded, unverified-then-verified), and no variant of the C01 catalogue (including attacker grafts) may verify with added, removed or altered blocks.",
   note="authorizers are total typed programs; re-encoding of the seal signature itself is not counted (no block changes)", ref="4 C08"),
 "C15": dict(level="exploration", tech="stateful property-based testing of identifier stability + twin minting + fault enumeration of signature re-encodings",
   text="Identifiers are compared after every build/append/third-party/seal/serialise/verify step of generated histories and against the wire signatures read by an independent decoder; two twins minted through the OS-RNG entry points must share no identifier; every accepted signature-level re-encoding must report the original identifiers.",
   note="uniqueness is probabilistic (OS RNG); ECDSA high-S malleability is an open known finding", ref="4 C15"),
 "C02": dict(level="exploration", tech="stateful property-based testing (proptest tape generators) + differential oracle against an independent signer/verifier (RefCrypto/RefSigner)",
   text="Generated build/append/append_third_party/seal histories over all key-algorithm mixes; at every step the token must reload on all entry points with identical accessors and byte-identical re-serialisation, every signature must verify under an independent implementation of the specification's payload layouts, the declared signature versions must follow the specification's rule, and an independent signer must produce the very same bytes.",
   note="ed25519-dalek / p256 primitives trusted; hand-written protobuf reader for the container; contents restricted to wire-compatible Datalog", ref="4 C02"),
}
ALL = [json.loads(l)["id"] for l in open("properties.jsonl")]
REASONS = {}
checks = []
for pid in ALL:
    if pid in CLAIMED:
        c = CLAIMED[pid]
        checks.append({
            "property_id": pid,
            "quick_cmd": f"./check {pid} quick",
            "thorough_cmd": f"./check {pid} thorough",
            "evidence_file": f"/verif/evidence/{pid}.json",
            "replay_cmd_template": "./check --replay {path}",
            "engine": "vcheck",
            "level_claimed": {"category": c["level"], "text": c["text"], "design_ref": c["ref"]},
            "level_note": c["note"],
            "technique": c["tech"],
        })
na = [{"property_id": p, "reason": REASONS.get(p, "check not built yet in this session; planned (see DESIGN.md section 4) - not a statement that the technique cannot apply")} for p in ALL if p not in CLAIMED]
m = {
 "version": 1,
 "setup_cmd": "./check --build",
 "hooks": {
   "guard": "biscuit_auth_biscuit_rust_verif",
   "enable": "RUSTFLAGS --cfg biscuit_auth_biscuit_rust_verif, set in /verif/harness/.cargo/config.toml (the harness depends on /repo's crates by path)",
   "baseline_off_cmd": "cd /repo && cargo test --workspace --no-fail-fast --offline",
   "source_commits": [],
   "add_only": True,
 },
 "engines": [
   {"name": "vcheck", "path": "/verif/harness", "serves_properties": sorted(CLAIMED), "kind_free_text": "Rust binary: proptest-driven generators (choice tape), reference models (RefCrypto, RefEval, RefDatalog, RefAuthz), deterministic 16-worker runner, evidence writer, replay"},
 ],
 "checks": checks,
 "not_applicable": na,
 "notes": "exit 0 = held, 1 = VIOLATION line(s), 2 = infrastructure problem. known_findings.json lists open/fixed findings. See DESIGN.md.",
}
json.dump(m, open("MANIFEST.json", "w"), indent=1)
print("claimed:", sorted(CLAIMED), "n/a:", len(na))
