#!/usr/bin/env python3
"""Regenerates MANIFEST.json from the table below (kept valid at all times)."""
import json, sys
CLAIMED = {
 "C07": dict(level="fault_enumeration", tech="scenario-based fault enumeration over generated token pairs: replay, re-attribution, message and wire manipulation of third-party blocks, with RefCrypto and RefAuthz oracles",
   text="For generated pairs of tokens (other root, same root, sibling attenuation), a position, third-party contents and both external key algorithms: the honest flow must work identically on both API paths and its external signature must verify independently over (payload, previous signature); the response is replayed at every other position of both tokens through both APIs, re-attributed, manipulated (8 response edits raw and base64, 3 request edits) and the resulting token is mutated on the wire (14 kinds at every block); nothing but the honest block at its place may be accepted / verify. Carrier tables are unchanged, the block prints as its author wrote it and its facts are visible exactly to scopes naming its key (RefAuthz).",
   note="UnverifiedBiscuit::append_third_party does not verify at append time by design: the resulting token must fail verification; Biscuit::append_third_party has no byte-level entry, so response edits go through the unverified API", ref="4 C07"),
 "C17": dict(level="exploration", tech="round-trip property-based testing of every key encoding + exhaustive single-fault enumeration (truncation, extension, bit flip) on signatures and raw keys, with the primitive crates as independent decoders",
   text="For generated keys of both algorithms and messages of 0-300 bytes: 16 private-key and 9 public-key encode/decode paths must return the same key and the public key derived independently; a signature verifies exactly under (key, message) and fails for another key, another message and every truncation, extension and single-bit flip; every truncation, extension and single-bit flip of the raw public key (also through the string and protobuf forms), sampled corruptions of private keys, DER and PEM, tag swaps and cross-algorithm decoders give an error or a key an independent decoder also reads; no decoder panics.",
   note="ed25519-dalek / p256 are the trusted base and the independent decoders; Signature values need the guarded re-export hook", ref="4 C17"),
 "C20": dict(level="exploration", tech="property-based testing with an inverse oracle: a generated ground item is turned into a template by replacing sub-terms with parameters, and binding the removed values back must reproduce the item",
   text="Up to 6 ground sub-terms of a generated fact / rule / check / policy (top-level, nested in arrays and maps, map keys, set elements, expression operands, inside closures, key scopes; shared names across alternatives) are replaced by {name} parameters; the values are bound back through set / set_lenient / set_scope on constructor-built or parsed items, or through code_with_params, a generated subset first left unbound. The bound item must equal the original (via Display -> parse and via token -> print_block_source -> parse), partial items must be refused naming only unbound parameters, unknown names are reported by strict setters only, and no conversion of a bound item may panic.",
   note="values always have the type of the position they came from (binding e.g. a boolean to a map key is outside the generator); macro-side binding is C18's subject", ref="4 C20"),
 "C16": dict(level="exploration", tech="enumeration of a feature x declared-version grid (correctly signed crafted blocks) + property-based testing of generated tokens against a feature->version reference table (RefVersion) and the signature-version rule (RefCrypto)",
   text="One block per feature (every operator in rules and checks, every term type at depth 0-2 in every container, check kinds, scopes at every level) goes through the three builder paths and must declare the version RefVersion computes; each block is then re-declared with every version 0..=8 and signed by RefSigner: out-of-range or under-declared blocks must not reach evaluation, correctly declared ones must. Generated tokens over all key-algorithm sequences must use the signature version the rule prescribes, never decreasing, and declare RefVersion's datalog versions.",
   note="RefVersion is transcribed from the specification; the grid is enumerated completely, combinations are sampled", ref="4 C16"),
 "C01": dict(level="fault_enumeration", tech="fault enumeration by generated structured wire mutations (proptest tape) with a signed-blocks equality oracle and an independent verifier (RefCrypto)",
   text="For generated tokens (all algorithm mixes, first/third-party blocks, sealed or not) and a donor token (independent, same root, or sibling attenuation), every mutation kind of the catalogue (50 kinds: payload, next key, signature, version, external signature, container, proof, byte level) is applied at every block index and the variant is presented on all three entry points, plus four foreign root keys. An accepted variant must carry exactly the signed blocks of a legitimately issued token of the case, and RefCrypto must accept what the library accepted.",
   note="signature primitives trusted; mutation catalogue + random parameters, not all byte strings; v0 blocks are not required to bind the previous signature", ref="4 C01"),
 "C03": dict(level="exploration", tech="metamorphic property-based testing (token vs token+adversarial block under the same generated authorizer)",
   text="For generated (token, adversarial appended block, authorizer) triples where no scope names the new block's key, authorize(T+B) is compared with authorize(T): no new acceptance, failed checks persist, earlier checks and the matched policy are unchanged, the facts of all origins not containing B and default-scope queries are identical (read structurally from snapshots).",
   note="both runs are the library's (no model needed); typed token/authorizer programs, the appended block may be untyped; an error of the extended token counts as refused", ref="4 C03"),
 "C04": dict(level="exploration", tech="differential property-based testing against a reference implementation of the scoped-Datalog decision procedure (RefAuthz/RefDatalog) + exhaustive small-scope enumeration of scope configurations",
   text="Generated tokens and authorizers are decided by the library and by RefAuthz (naive scoped least fixpoint, trust computation, per-kind check rules, ordered policies, error assembly); outcome, failed-check list, matched policy and query/query_all results must be equal. All scope configurations over a small shape (blocks in {first-party, third-party K1, K2}; probe check of each kind in every owner x 16 block-level x 16 rule-level scope subsets x every target; probe rule x 16 x 16) are enumerated completely.",
   note="reference model written from the specification / property text; error-free programs only; `previous` in the authorizer scope ignored as documented", ref="4 C04"),
 "C05": dict(level="exploration", tech="differential property-based testing of datalog::World against a naive reference fixpoint (RefDatalog), with insertion-order permutations",
   text="The engine is driven directly with arbitrary origin sets and trusted-origin sets; the resulting set of (origin, fact) pairs must equal the reference's (missing and extra reported separately) under three insertion orders, and query_rule/query_match/query_match_all must agree with the model; includes same-name/other-arity facts and unbound head variables.",
   note="typed expressions only; RefDatalog is deliberately naive (nested loops)", ref="4 C05"),
 "C06": dict(level="exploration", tech="exhaustive operator-table enumeration + property-based testing of op sequences against a reference evaluator (RefEval), laziness observed through counting extern functions",
   text="Every unary/binary/closure operator over a representative value set (127 k cells) and generated well-formed and malformed op sequences are evaluated by the library and by RefEval: same value or both errors, no panic, law-governed error classes equal, extern call counts equal; a quarter of the sequences also go through builder -> token -> authorize.",
   note="cells the specification leaves open are pinned to the tree at design time (listed in evidence assumptions); order-dependent all/any over sets with failing elements skipped", ref="4 C06"),
 "C08": dict(level="fault_enumeration", tech="property-based testing of seal (metamorphic sealed-vs-unsealed oracle) + fault enumeration of post-seal operations and wire mutations",
   text="Every generated token is sealed; the sealed token must verify on all entry points with unchanged blocks, accessors and revocation ids, authorize exactly like the unsealed twin under generated authorizers, refuse all 12 extending operations on three paths (in memory, reloaded, unverified-then-verified), and no variant of the C01 catalogue (including attacker grafts) may verify with added, removed or altered blocks.",
   note="authorizers are total typed programs; re-encoding of the seal signature itself is not counted (no block changes)", ref="4 C08"),
 "C09": dict(level="exploration", tech="structure-aware generation of hostile inputs (adversarial protobuf messages properly signed by the reference signer, mutated valid encodings, random bytes, operand grids) swept over every parsing entry point and every accessor in crash-isolated child processes with a watchdog",
   text="28 k (quick) / 400 k (thorough) generated inputs - signed adversarial and edited blocks in authority / first-party / third-party position, mutated and random token bytes and base64, adversarial and edited snapshots, policies, third-party requests and blocks, key strings / bytes / PEM / DER, Datalog text, plus an exhaustive grid of operators over extreme integers - go to every entry point that accepts them; every object obtained is swept (all block indices including out-of-range, print, seal, append, third party, authorizer build / run / authorize / query / dump / snapshot / restore). No panic (caught and attributed), no abort or stack overflow (child death), no hang (30 s watchdog, reproduced twice).",
   note="'hang' means 30 s without an answer under limits of 200 ms / 20 iterations / 500 facts; memory exhaustion would show as child death; a non-reproducible watchdog expiry is reported as inconclusive (exit 2)", ref="4 C09"),
 "C19": dict(level="exploration", tech="stateful property-based testing: generated call sequences over a handle table interpreted in crash-isolated child processes, every extern \"C\" call mirrored by the Rust operation on a twin object (model-based differential oracle), canary-guarded buffers",
   text="48 k (quick) / 1 M (thorough) sequences of up to 35 calls over 33 operations and 7 handle kinds (keys of both algorithms, three builders with valid / invalid / non-UTF-8 text, build, parse of valid / mutated / sealed / random bytes, size queries + serialization plain and sealed, block accessors with indices past the end, append, authorizers, authorize, print, the error_* family with any index, frees, NULL handles). After every call: same success, bytes, strings, sizes as the Rust API; error kind, message and failed-check details equal for all indices; written == announced; canaries intact; the child process is alive.",
   note="the functions are called as Rust symbols of the rlib (the cbindgen header and the C ABI of the cdylib are not exercised); undefined-behaviour arguments (invalid enum values, dangling handles) are not generated", ref="4 C19"),
 "C10": dict(level="exploration", tech="property-based testing of call histories over program families with model-known cost, limits drawn from boundary sets, invariants checked after every call under a virtual clock (hook)",
   text="Seven program families (chain, exponential join, expensive iteration / non-productive iteration / check / query, ticking chain) whose iteration, fact and tick cost is computed by the reference fixpoint are run under limit triples around that cost and call histories of length 1-4 (run/authorize/query/query_all/query_exactly_one), in an authorizer or in a token. After every call: no panic; success implies iterations, facts and virtual time within budget; a program needing more than a budget never succeeds; limit errors are prompt (8 ticks, 2x facts + 64); budgets are cumulative.",
   note="time is a per-thread virtual clock advanced by an extern function (hook H1, guarded); promptness allowances are stated constants; real-time behaviour under load is not measured", ref="4 C10"),
 "C11": dict(level="exploration", tech="property-based testing over hash orders: N fresh builds (new RandomState per HashMap), clones, permuted insertions, fresh threads, reused objects and tight iteration budgets; reference model only classifies the known root cause",
   text="Each generated (token, authorizer, probe queries) input with fallible expressions is evaluated on 48 (quick) / 512 (thorough) fresh builds plus clones, second calls and thread-spawned builds; the set of normalised outcomes and of query result sets must have one element; a second campaign uses an iteration budget equal to the model cost (+0/+1) so that order-dependent iteration counts flip the outcome.",
   note="hash seeds come from the OS: a reported difference is always real, a rare order dependence can be missed; the first-result-wins root cause is an open known finding, classified with RefAuthz", ref="4 C11"),
 "C12": dict(level="exploration", tech="stateful (model-based) property-based testing of API histories over Biscuit and UnverifiedBiscuit, with a reload oracle after every step, an author-AST oracle and RefAuthz",
   text="Generated histories of append / append_third_party / seal / reload / API switch are executed through the API the state is in; after every step the in-memory object and its reload must print the same block sources, expose the same symbols, keys and accessors, serialise to the same bytes and authorize identically under generated authorizers; every printed block must parse back to the AST its author supplied and the outcome must equal RefAuthz on the plan. Crafted (RefSigner) tokens whose first-party block redeclares a symbol or key of an earlier block or the default table must be refused.",
   note="contents use grammar-normal expressions and plain strings so that printing is parseable; block-level scopes are compared through authorization only (open C14 finding)", ref="4 C12"),
 "C13": dict(level="exploration", tech="round-trip property-based testing of snapshots and saved policies (snapshot -> restore -> structural and behavioural comparison)",
   text="For generated tokens (third-party blocks with own symbols and keys, key scopes naming earlier and later blocks, or no token) and authorizers, snapshots are taken before run, after authorize, after a query and after a run that hit the iteration limit, in struct / raw / base64 form, restored and compared: facts per origin, rules, checks, policies, limits, iterations, authorize() outcome and query/query_all on probe rules; AuthorizerBuilder snapshots and save()/AuthorizerPolicies/Authorizer::from are compared likewise.",
   note="both sides are the library's (round trip); the view is read from snapshot()/dump(); saved policies with key scopes cannot be serialised (open finding)", ref="4 C13"),
 "C14": dict(level="exploration", tech="round-trip property-based testing (print -> parse -> compare ASTs) over grammar-derived items, blocks and authorizer dumps",
   text="Facts, rules, checks and policies derived from the grammar (all term types, nested collections, every operator and method, closures, explicit Parens exactly where the grammar needs them, scopes with both key algorithms, strings over all of Unicode biased to quote/backslash/newline/Datalog fragments) are printed with Display and parsed back with FromStr; tokens are printed with print_block_source and rebuilt with BlockBuilder::code; authorizers are dumped and rebuilt; any parse failure or structural difference is a violation. Strict And/Or (wire only) are probed separately.",
   note="the AST generator is the reference; four open findings (block / authorizer scope not printed, strict And/Or syntax) are tolerated by signature", ref="4 C14"),
 "C15": dict(level="exploration", tech="stateful property-based testing of identifier stability + twin minting + fault enumeration of signature re-encodings",
   text="Identifiers are compared after every build/append/third-party/seal/serialise/verify step of generated histories and against the wire signatures read by an independent decoder; two twins minted through the OS-RNG entry points must share no identifier; every accepted signature-level re-encoding must report the original identifiers.",
   note="uniqueness is probabilistic (OS RNG); ECDSA high-S malleability is an open known finding", ref="4 C15"),
 "C02": dict(level="exploration", tech="stateful property-based testing (proptest tape generators) + differential oracle against an independent signer/verifier (RefCrypto/RefSigner)",
   text="Generated build/append/append_third_party/seal histories over all key-algorithm mixes; at every step the token must reload on all entry points with identical accessors and byte-identical re-serialisation, every signature must verify under an independent implementation of the specification's payload layouts, the declared signature versions must follow the specification's rule, and an independent signer must produce the very same bytes.",
   note="ed25519-dalek / p256 primitives trusted; hand-written protobuf reader for the container; contents restricted to wire-compatible Datalog", ref="4 C02"),
}
ALL = [json.loads(l)["id"] for l in open("properties.jsonl")]
REASONS = {}
checks = []
for pid in ALL:
    if pid in CLAIMED:
        c = CLAIMED[pid]
        checks.append({
            "property_id": pid,
            "quick_cmd": f"./check {pid} quick",
            "thorough_cmd": f"./check {pid} thorough",
            "evidence_file": f"/verif/evidence/{pid}.json",
            "replay_cmd_template": "./check --replay {path}",
            "engine": "vcheck",
            "level_claimed": {"category": c["level"], "text": c["text"], "design_ref": c["ref"]},
            "level_note": c["note"],
            "technique": c["tech"],
        })
na = [{"property_id": p, "reason": REASONS.get(p, "check not built yet in this session; planned (see DESIGN.md section 4) - not a statement that the technique cannot apply")} for p in ALL if p not in CLAIMED]
m = {
 "version": 1,
 "setup_cmd": "./check --build",
 "hooks": {
   "guard": "biscuit_auth_biscuit_rust_verif",
   "enable": "RUSTFLAGS --cfg biscuit_auth_biscuit_rust_verif, set in /verif/harness/.cargo/config.toml (the harness depends on /repo's crates by path)",
   "baseline_off_cmd": "cd /repo && cargo test --workspace --no-fail-fast --offline",
   "source_commits": ["a55622d"],
   "add_only": True,
 },
 "engines": [
   {"name": "vcheck", "path": "/verif/harness", "serves_properties": sorted(CLAIMED), "kind_free_text": "Rust binary: proptest-driven generators (choice tape), reference models (RefCrypto, RefEval, RefDatalog, RefAuthz), deterministic 16-worker runner, evidence writer, replay"},
 ],
 "checks": checks,
 "not_applicable": na,
 "notes": "exit 0 = held, 1 = VIOLATION line(s), 2 = infrastructure problem. known_findings.json lists open/fixed findings. See DESIGN.md.",
}
json.dump(m, open("MANIFEST.json", "w"), indent=1)
print("claimed:", sorted(CLAIMED), "n/a:", len(na))
