//! helpers for the generated C18 binaries: both sides of a case (macro-built and run-time-built)
//! are rendered through the same functions, under catch_unwind
use biscuit_auth::builder::{AuthorizerBuilder, BiscuitBuilder, BlockBuilder, Check, Fact, Policy, Rule};
use biscuit_auth::{Biscuit, KeyPair, PublicKey};
use serde_json::{json, Value};
use vcore::keys::{Alg, KeyPlan};

pub type Render = Vec<(String, String)>;

pub fn key(alg: u8, seed: u64) -> PublicKey {
    KeyPlan {
        alg: if alg == 0 { Alg::Ed } else { Alg::P256 },
        seed,
    }
    .public()
}

fn kp(seed: u64) -> KeyPair {
    KeyPlan { alg: Alg::Ed, seed }.keypair()
}

/// run one side of a case
pub fn catch<F: FnOnce() -> Result<Render, String> + std::panic::UnwindSafe>(f: F) -> Value {
    match vcore::util::guard(f) {
        Ok(Ok(r)) => json!({"ok": true, "render": r}),
        Ok(Err(e)) => json!({"ok": false, "error": e}),
        Err(p) => json!({"ok": false, "panic": format!("{} at {}:{}", p.message, p.file, p.line)}),
    }
}

fn base_token() -> Biscuit {
    BiscuitBuilder::new()
        .code("right(\"file1\", \"read\"); user(1); resource(\"file1\"); operation(\"read\");")
        .unwrap()
        .build_with_key_pair(&kp(1800), biscuit_auth::datalog::SymbolTable::default(), &kp(1801))
        .unwrap()
}

fn outcome(token: &Biscuit, a: AuthorizerBuilder) -> String {
    match a.limits(vcore::authz::big_limits()).build(token) {
        Ok(mut a) => format!("{:?}", vcore::authz::normalize(a.authorize())),
        Err(e) => format!("build: {e:?}"),
    }
}

fn allow_all() -> AuthorizerBuilder {
    AuthorizerBuilder::new().code("allow if true").unwrap()
}

pub fn render_block(b: BlockBuilder) -> Result<Render, String> {
    let mut r = vec![("display".to_string(), b.to_string())];
    let t = base_token().append_with_keypair(&kp(1802), b).map_err(|e| format!("append: {e:?}"))?;
    r.push(("token".into(), hex::encode(t.to_vec().map_err(|e| format!("{e:?}"))?)));
    r.push(("block_source".into(), t.print_block_source(1).map_err(|e| format!("{e:?}"))?));
    r.push(("authorize".into(), outcome(&t, allow_all())));
    Ok(r)
}

pub fn render_biscuit(b: BiscuitBuilder) -> Result<Render, String> {
    let mut r = vec![("display".to_string(), b.to_string()), ("dump_code".to_string(), b.dump_code())];
    let t = b
        .build_with_key_pair(&kp(1800), biscuit_auth::datalog::SymbolTable::default(), &kp(1801))
        .map_err(|e| format!("build: {e:?}"))?;
    r.push(("token".into(), hex::encode(t.to_vec().map_err(|e| format!("{e:?}"))?)));
    r.push(("block_source".into(), t.print_block_source(0).map_err(|e| format!("{e:?}"))?));
    r.push(("authorize".into(), outcome(&t, allow_all())));
    Ok(r)
}

pub fn render_authorizer(a: AuthorizerBuilder) -> Result<Render, String> {
    let mut r = vec![("dump_code".to_string(), a.dump_code())];
    r.push(("snapshot".into(), hex::encode(a.to_raw_snapshot().map_err(|e| format!("{e:?}"))?)));
    // a token with a second block, so that `previous` and `authority` differ
    let t = base_token()
        .append_with_keypair(&kp(1802), BlockBuilder::new().code("user(2); extra(\"block1\")").unwrap())
        .map_err(|e| format!("{e:?}"))?;
    r.push(("authorize".into(), outcome(&t, a.clone())));
    r.push(("authorize_unauthenticated".into(), match a.limits(vcore::authz::big_limits()).build_unauthenticated() {
        Ok(mut a) => format!("{:?}", vcore::authz::normalize(a.authorize())),
        Err(e) => format!("build: {e:?}"),
    }));
    Ok(r)
}

pub fn render_fact(x: Fact) -> Result<Render, String> {
    let mut r = vec![("item".to_string(), x.to_string())];
    r.extend(render_block(BlockBuilder::new().fact(x).map_err(|e| format!("add: {e:?}"))?)?);
    Ok(r)
}
pub fn render_rule(x: Rule) -> Result<Render, String> {
    let mut r = vec![("item".to_string(), x.to_string())];
    r.extend(render_block(BlockBuilder::new().rule(x).map_err(|e| format!("add: {e:?}"))?)?);
    Ok(r)
}
pub fn render_check(x: Check) -> Result<Render, String> {
    let mut r = vec![("item".to_string(), x.to_string())];
    r.extend(render_block(BlockBuilder::new().check(x).map_err(|e| format!("add: {e:?}"))?)?);
    Ok(r)
}
pub fn render_policy(x: Policy) -> Result<Render, String> {
    let mut r = vec![("item".to_string(), x.to_string())];
    r.extend(render_authorizer(AuthorizerBuilder::new().policy(x).map_err(|e| format!("add: {e:?}"))?)?);
    Ok(r)
}

/// main of a generated binary
pub fn run(cases: &[(u32, fn() -> (Value, Value))]) {
    vcore::util::install_panic_hook();
    // authorizations under a clock that does not move: no time limit can interfere
    biscuit_auth::verif_hooks::verif_clock::enable();
    use std::io::Write;
    let out = std::io::stdout();
    for (id, f) in cases {
        let (m, r) = f();
        let mut o = out.lock();
        let _ = writeln!(o, "{}", json!({"id": id, "macro": m, "runtime": r}));
    }
}
