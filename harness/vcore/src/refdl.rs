//! RefDatalog (scoped least fixpoint, deliberately naive) and RefAuthz (decision procedure),
//! written from the Biscuit specification
use crate::ast::*;
use crate::authz::{CheckId, Outcome};
use crate::refeval::*;
use std::collections::{BTreeMap, BTreeSet};

pub const AUTH: usize = usize::MAX;

pub type Origin = BTreeSet<usize>;

#[derive(Clone, Debug, PartialEq, Eq, PartialOrd, Ord, Hash)]
pub struct OFact {
    pub origin: Origin,
    pub fact: Pred,
}

#[derive(Clone, Debug)]
pub struct ORule {
    pub owner: usize,
    pub trusted: Origin,
    pub rule: Rule,
}

#[derive(Clone, Debug, Default)]
pub struct RWorld {
    pub facts: BTreeSet<OFact>,
    pub rules: Vec<ORule>,
}

#[derive(Clone, Debug, PartialEq, Eq)]
pub enum MatchErr {
    Eval(EvalErr),
}

fn unify(pat: &Term, val: &Term, b: &mut Bindings) -> bool {
    match pat {
        Term::Var(v) => match b.get(v) {
            Some(x) => x == val,
            None => {
                b.insert(v.clone(), val.clone());
                true
            }
        },
        p => p == val,
    }
}

/// all bindings of `body` over the facts visible under `trusted`, with the union of origins.
/// naive nested loops; order = sorted order of facts (irrelevant for error-free programs)
pub fn match_body(body: &[Pred], facts: &BTreeSet<OFact>, trusted: &Origin) -> Vec<(Origin, Bindings)> {
    let visible: Vec<&OFact> = facts.iter().filter(|f| f.origin.is_subset(trusted)).collect();
    let mut acc: Vec<(Origin, Bindings)> = vec![(Origin::new(), Bindings::new())];
    for p in body {
        let mut next = vec![];
        for (o, b) in &acc {
            for f in &visible {
                if f.fact.name != p.name || f.fact.terms.len() != p.terms.len() {
                    continue;
                }
                let mut b2 = b.clone();
                if p.terms.iter().zip(&f.fact.terms).all(|(pt, ft)| unify(pt, ft, &mut b2)) {
                    let mut o2 = o.clone();
                    o2.extend(f.origin.iter().cloned());
                    next.push((o2, b2));
                }
            }
        }
        acc = next;
    }
    acc
}

/// per-binding result of the rule's expressions
pub fn eval_exprs(exprs: &[Expr], b: &Bindings, ext: Extern) -> Constraint {
    for e in exprs {
        match eval_constraint(e, b, ext) {
            Constraint::True => {}
            other => return other,
        }
    }
    Constraint::True
}

impl RWorld {
    pub fn add_fact(&mut self, origin: Origin, fact: Pred) {
        self.facts.insert(OFact { origin, fact });
    }

    /// one application of a rule: derived (origin, fact) pairs, or the set of error classes met
    pub fn apply_rule(&self, r: &ORule, ext: Extern) -> Result<Vec<OFact>, BTreeSet<EvalErr>> {
        let mut out = vec![];
        let mut errs = BTreeSet::new();
        for (o, b) in match_body(&r.rule.body, &self.facts, &r.trusted) {
            match eval_exprs(&r.rule.exprs, &b, ext) {
                Constraint::True => {
                    let mut terms = vec![];
                    let mut ok = true;
                    for t in &r.rule.head.terms {
                        match t {
                            Term::Var(v) => match b.get(v) {
                                Some(x) => terms.push(x.clone()),
                                None => {
                                    ok = false;
                                    break;
                                }
                            },
                            t => terms.push(t.clone()),
                        }
                    }
                    if ok {
                        let mut o2 = o.clone();
                        o2.insert(r.owner);
                        out.push(OFact {
                            origin: o2,
                            fact: Pred {
                                name: r.rule.head.name.clone(),
                                terms,
                            },
                        });
                    }
                }
                Constraint::False => {}
                Constraint::Error(e) => {
                    errs.insert(e);
                }
            }
        }
        if errs.is_empty() {
            Ok(out)
        } else {
            Err(errs)
        }
    }

    /// least fixpoint; Err = some rule application met an expression error
    pub fn run(&mut self, ext: Extern, max_rounds: usize) -> Result<usize, BTreeSet<EvalErr>> {
        let mut rounds = 0;
        loop {
            let mut new = vec![];
            for r in &self.rules {
                new.extend(self.apply_rule(r, ext)?);
            }
            let before = self.facts.len();
            self.facts.extend(new);
            if self.facts.len() == before {
                return Ok(rounds);
            }
            rounds += 1;
            if rounds > max_rounds {
                let mut s = BTreeSet::new();
                s.insert(EvalErr::Ambiguous);
                return Err(s);
            }
        }
    }
}

/// result of evaluating one query (rule body + expressions) under a trust set
#[derive(Clone, Debug, Default, PartialEq, Eq)]
pub struct QueryEval {
    pub candidates: usize,
    pub matching: usize,
    pub falsified: usize,
    pub errors: BTreeSet<EvalErr>,
}

pub fn eval_query(q: &Rule, facts: &BTreeSet<OFact>, trusted: &Origin, ext: Extern) -> QueryEval {
    let mut r = QueryEval::default();
    for (_, b) in match_body(&q.body, facts, trusted) {
        r.candidates += 1;
        match eval_exprs(&q.exprs, &b, ext) {
            Constraint::True => r.matching += 1,
            Constraint::False => r.falsified += 1,
            Constraint::Error(e) => {
                r.errors.insert(e);
            }
        }
    }
    r
}

// ---------------------------------------------------------------------------------------------
// RefAuthz
// ---------------------------------------------------------------------------------------------

/// a token as the authorizer sees it: blocks with optional external key index
#[derive(Clone, Debug)]
pub struct RToken {
    pub blocks: Vec<(Block, Option<usize>)>,
}

pub fn trusted_origins(scopes: &[Scope], default: &Origin, current: usize, tok: &RToken) -> Origin {
    if scopes.is_empty() {
        let mut o = default.clone();
        o.insert(current);
        o.insert(AUTH);
        return o;
    }
    let mut o = Origin::new();
    o.insert(AUTH);
    o.insert(current);
    for s in scopes {
        match s {
            Scope::Authority => {
                o.insert(0);
            }
            Scope::Previous => {
                // documented: `previous` is ignored for the authorizer
                if current != AUTH {
                    o.extend(0..=current);
                }
            }
            Scope::Key(k) => {
                for (i, (_, ext)) in tok.blocks.iter().enumerate() {
                    if *ext == Some(*k) {
                        o.insert(i);
                    }
                }
            }
            Scope::Param(_) => {}
        }
    }
    o
}

pub fn default_origins() -> Origin {
    [AUTH, 0].into_iter().collect()
}

pub struct RefAuthz {
    pub world: RWorld,
    pub tok: RToken,
    pub authorizer: AuthorizerAst,
    pub block_defaults: Vec<Origin>,
    pub auth_default: Origin,
}

#[derive(Clone, Debug, PartialEq, Eq)]
pub enum RefOutcome {
    /// unique outcome
    One(Outcome),
    /// the program is not error-free: the specification-level answer depends on iteration order
    /// or is an error; carries the error classes met
    Errors(BTreeSet<EvalErr>),
}

impl RefAuthz {
    pub fn new(tok: Option<&RToken>, authorizer: &AuthorizerAst) -> RefAuthz {
        let tok = tok.cloned().unwrap_or(RToken { blocks: vec![] });
        let mut world = RWorld::default();
        let mut block_defaults = vec![];
        for (i, (b, _)) in tok.blocks.iter().enumerate() {
            let bd = trusted_origins(&b.scopes, &default_origins(), i, &tok);
            for f in &b.facts {
                world.add_fact([i].into_iter().collect(), f.clone());
            }
            for r in &b.rules {
                world.rules.push(ORule {
                    owner: i,
                    trusted: trusted_origins(&r.scopes, &bd, i, &tok),
                    rule: r.clone(),
                });
            }
            block_defaults.push(bd);
        }
        let auth_default = trusted_origins(&authorizer.block.scopes, &default_origins(), AUTH, &tok);
        for f in &authorizer.block.facts {
            world.add_fact([AUTH].into_iter().collect(), f.clone());
        }
        for r in &authorizer.block.rules {
            world.rules.push(ORule {
                owner: AUTH,
                trusted: trusted_origins(&r.scopes, &auth_default, AUTH, &tok),
                rule: r.clone(),
            });
        }
        RefAuthz {
            world,
            tok,
            authorizer: authorizer.clone(),
            block_defaults,
            auth_default,
        }
    }

    fn check_ok(&self, c: &Check, default: &Origin, current: usize, ext: Extern, errs: &mut BTreeSet<EvalErr>) -> bool {
        let evals: Vec<QueryEval> = c
            .queries
            .iter()
            .map(|q| {
                let tr = trusted_origins(&q.scopes, default, current, &self.tok);
                eval_query(q, &self.world.facts, &tr, ext)
            })
            .collect();
        for e in &evals {
            errs.extend(e.errors.iter().cloned());
        }
        match c.kind {
            CheckKind::One => evals.iter().any(|e| e.matching > 0),
            CheckKind::All => evals.iter().any(|e| e.candidates > 0 && e.falsified == 0 && e.errors.is_empty()),
            // the statement: passes only when none of its alternatives matches
            CheckKind::Reject => evals.iter().all(|e| e.matching == 0),
        }
    }

    pub fn authorize(&mut self, ext: Extern) -> RefOutcome {
        if let Err(e) = self.world.run(ext, 10_000) {
            return RefOutcome::Errors(e);
        }
        let mut errs = BTreeSet::new();
        let mut failed: Vec<CheckId> = vec![];
        for (i, c) in self.authorizer.block.checks.iter().enumerate() {
            if !self.check_ok(c, &self.auth_default, AUTH, ext, &mut errs) {
                failed.push((None, i as u32));
            }
        }
        if let Some((b0, _)) = self.tok.blocks.first() {
            for (j, c) in b0.checks.iter().enumerate() {
                if !self.check_ok(c, &self.block_defaults[0], 0, ext, &mut errs) {
                    failed.push((Some(0), j as u32));
                }
            }
        }
        let mut policy = None;
        'p: for (i, p) in self.authorizer.policies.iter().enumerate() {
            for q in &p.queries {
                let tr = trusted_origins(&q.scopes, &self.auth_default, AUTH, &self.tok);
                let e = eval_query(q, &self.world.facts, &tr, ext);
                errs.extend(e.errors.iter().cloned());
                if e.matching > 0 {
                    policy = Some((p.allow, i));
                    break 'p;
                }
            }
        }
        for (i, (b, _)) in self.tok.blocks.iter().enumerate().skip(1) {
            for (j, c) in b.checks.iter().enumerate() {
                if !self.check_ok(c, &self.block_defaults[i], i, ext, &mut errs) {
                    failed.push((Some(i as u32), j as u32));
                }
            }
        }
        if !errs.is_empty() {
            return RefOutcome::Errors(errs);
        }
        RefOutcome::One(match (policy, failed.is_empty()) {
            (Some((true, i)), true) => Outcome::Allow(i),
            (p, _) => Outcome::Refused { policy: p, failed },
        })
    }

    /// `Authorizer::query`: authority + authorizer unless the rule carries scopes
    pub fn query(&self, rule: &Rule, ext: Extern) -> Result<BTreeSet<Pred>, BTreeSet<EvalErr>> {
        let tr = trusted_origins(&rule.scopes, &default_origins(), AUTH, &self.tok);
        self.query_with(rule, tr, ext)
    }

    /// `Authorizer::query_all`: every block + authorizer unless the rule carries scopes
    pub fn query_all(&self, rule: &Rule, ext: Extern) -> Result<BTreeSet<Pred>, BTreeSet<EvalErr>> {
        let tr = if rule.scopes.is_empty() {
            let mut o: Origin = (0..self.tok.blocks.len().max(1)).collect();
            o.insert(AUTH);
            o
        } else {
            trusted_origins(&rule.scopes, &default_origins(), AUTH, &self.tok)
        };
        self.query_with(rule, tr, ext)
    }

    fn query_with(&self, rule: &Rule, trusted: Origin, ext: Extern) -> Result<BTreeSet<Pred>, BTreeSet<EvalErr>> {
        let r = ORule {
            owner: AUTH,
            trusted,
            rule: rule.clone(),
        };
        self.world.apply_rule(&r, ext).map(|v| v.into_iter().map(|f| f.fact).collect())
    }
}

/// facts visible per origin, as a sorted map (for comparisons between worlds)
pub fn facts_by_origin(w: &RWorld) -> BTreeMap<Origin, BTreeSet<Pred>> {
    let mut m: BTreeMap<Origin, BTreeSet<Pred>> = BTreeMap::new();
    for f in &w.facts {
        m.entry(f.origin.clone()).or_default().insert(f.fact.clone());
    }
    m
}
