//! hand-written generators over a choice tape
use crate::ast::*;
use crate::keys::{Alg, KeyPlan};
use crate::tape::Tape;
use std::collections::{BTreeMap, BTreeSet};

#[derive(Clone, Copy, Debug, PartialEq, Eq, Hash, PartialOrd, Ord)]
pub enum Ty {
    Int,
    Str,
    Bool,
    Date,
    Bytes,
    SetInt,
    Any,
}

/// typed predicate signatures; facts generated in "typed" mode follow them
pub const SIGS: &[(&str, &[Ty])] = &[
    ("p0", &[Ty::Int]),
    ("p1", &[Ty::Str]),
    ("p2", &[Ty::Int, Ty::Str]),
    ("p3", &[Ty::Int, Ty::Int]),
    ("right", &[Ty::Str, Ty::Str]),
    ("resource", &[Ty::Str]),
    ("user", &[Ty::Int]),
    ("p4", &[Ty::Str, Ty::Any]),
    ("p5", &[Ty::SetInt]),
    ("p6", &[Ty::Any]),
    ("time", &[Ty::Date]),
    ("p7", &[Ty::Bool]),
    ("p8", &[Ty::Bytes, Ty::Int]),
    ("p9", &[Ty::Int, Ty::Int, Ty::Str]),
];

pub const INT_POOL: &[i64] = &[0, 1, 2, 3, -1, 7, 100, i64::MAX, i64::MIN];
pub const STR_POOL: &[&str] = &["a", "b", "read", "write", "file1", "resource", "", "h\u{e9}llo", "a b", "query"];
pub const DATE_POOL: &[u64] = &[0, 1, 1000, 1_700_000_000];
pub const BYTES_POOL: &[&[u8]] = &[&[], &[0], &[1, 2, 3], &[0xde, 0xad]];

pub fn var_names(ty: Ty) -> &'static [&'static str] {
    match ty {
        Ty::Int => &["i", "j", "k"],
        Ty::Str => &["s", "t"],
        Ty::Bool => &["bo"],
        Ty::Date => &["d"],
        Ty::Bytes => &["by"],
        Ty::SetInt => &["se"],
        Ty::Any => &["x", "y"],
    }
}

pub fn var_type(name: &str) -> Option<Ty> {
    for ty in [Ty::Int, Ty::Str, Ty::Bool, Ty::Date, Ty::Bytes, Ty::SetInt, Ty::Any] {
        if var_names(ty).contains(&name) {
            return Some(ty);
        }
    }
    None
}

#[derive(Clone, Debug)]
pub struct GenCfg {
    /// expressions are total and facts follow SIGS
    pub typed: bool,
    pub exprs: bool,
    pub closures: bool,
    /// null, arrays, maps, reject if, heterogeneous equality, typeof, lazy ops
    pub v33: bool,
    pub scopes: bool,
    pub n_keys: usize,
    pub allow_unbound_head: bool,
    pub max_facts: usize,
    pub max_rules: usize,
    pub max_checks: usize,
    /// strict And/Or operators (not produced by the grammar)
    pub strict_bool_ops: bool,
    /// strings from the full character set (printing properties)
    pub wild_strings: bool,
    pub extern_funcs: bool,
    /// indices into SIGS usable in this case (empty = all)
    pub sigs: Vec<usize>,
    /// also generate facts whose arity differs from the signature of their name
    pub off_arity: bool,
    /// with `typed == false`: rules stay typed (the fixpoint rarely fails), only checks, policies
    /// and queries get untyped expressions
    pub typed_rules: bool,
    /// expressions carry explicit `Parens` operations wherever the grammar needs them (what the
    /// parser itself would produce); required when printed text must parse back
    pub grammar_normal: bool,
}

impl Default for GenCfg {
    fn default() -> Self {
        GenCfg {
            typed: true,
            exprs: true,
            closures: true,
            v33: true,
            scopes: true,
            n_keys: 4,
            allow_unbound_head: false,
            max_facts: 5,
            max_rules: 3,
            max_checks: 3,
            strict_bool_ops: true,
            wild_strings: false,
            extern_funcs: false,
            sigs: vec![],
            off_arity: true,
            typed_rules: false,
            grammar_normal: false,
        }
    }
}

pub fn gen_keys(t: &mut Tape, n: usize) -> Vec<KeyPlan> {
    (0..n)
        .map(|i| KeyPlan {
            alg: if t.chance(1, 3) { Alg::P256 } else { Alg::Ed },
            seed: (t.raw() as u64) << 8 | i as u64,
        })
        .collect()
}

pub fn gen_str(t: &mut Tape, cfg: &GenCfg) -> String {
    if cfg.wild_strings && t.chance(1, 2) {
        gen_wild_string(t)
    } else {
        t.choose(STR_POOL).to_string()
    }
}

pub const WILD_FRAGMENTS: &[&str] = &[
    "\"", "\\", "\n", "{", "}", ";", "//", "*/", "/*", "\"); allow if true; //", "$x", "{p}", "\\\"", "\\n", "\t", "\r",
    " ", "a", "Z", "0", "\u{e9}", "\u{1F600}", "\u{0}", "(", ")", ",", "<-", "trusting", "'", "\u{2028}",
];

pub fn gen_wild_string(t: &mut Tape) -> String {
    let n = t.range(0, 5);
    let mut s = String::new();
    for _ in 0..n {
        if t.chance(1, 6) {
            // arbitrary scalar value
            let v = t.u64() as u32 % 0x11_0000;
            if let Some(c) = char::from_u32(v) {
                s.push(c);
            }
        } else {
            s.push_str(*t.choose(WILD_FRAGMENTS));
        }
    }
    s
}

pub fn gen_int(t: &mut Tape) -> i64 {
    if t.chance(1, 8) {
        t.u64() as i64
    } else {
        *t.choose(INT_POOL)
    }
}

pub fn gen_small_int(t: &mut Tape) -> i64 {
    *t.choose(&[0i64, 1, 2, 3, -1, 7, 100])
}

/// ground constant of a given type
pub fn gen_const(t: &mut Tape, ty: Ty, cfg: &GenCfg) -> Term {
    match ty {
        Ty::Int => Term::Int(gen_int(t)),
        Ty::Str => Term::Str(gen_str(t, cfg)),
        Ty::Bool => Term::Bool(t.chance(1, 2)),
        Ty::Date => Term::Date(*t.choose(DATE_POOL)),
        Ty::Bytes => Term::Bytes(t.choose(BYTES_POOL).to_vec()),
        Ty::SetInt => {
            let n = t.range(0, 3);
            Term::Set((0..n).map(|_| Term::Int(gen_small_int(t))).collect())
        }
        Ty::Any => gen_any(t, cfg, 2),
    }
}

/// any ground term acceptable to the wire format (homogeneous sets, no nested sets)
pub fn gen_any(t: &mut Tape, cfg: &GenCfg, depth: usize) -> Term {
    let max = if cfg.v33 {
        if depth == 0 {
            7
        } else if cfg.grammar_normal {
            // the grammar has no arrays inside sets
            9
        } else {
            10
        }
    } else {
        6
    };
    match t.pick(max) {
        0 => Term::Int(gen_int(t)),
        1 => Term::Str(gen_str(t, cfg)),
        2 => Term::Bool(t.chance(1, 2)),
        3 => Term::Date(*t.choose(DATE_POOL)),
        4 => Term::Bytes(t.choose(BYTES_POOL).to_vec()),
        5 => {
            // homogeneous set of scalars
            let n = t.range(0, 3);
            let kind = t.pick(if cfg.v33 { 4 } else { 3 });
            Term::Set(
                (0..n)
                    .map(|_| match kind {
                        0 => Term::Int(gen_small_int(t)),
                        1 => Term::Str(gen_str(t, cfg)),
                        2 => Term::Bytes(t.choose(BYTES_POOL).to_vec()),
                        _ => Term::Null,
                    })
                    .collect(),
            )
        }
        6 => Term::Null,
        7 => {
            let n = t.range(0, 3);
            Term::Array((0..n).map(|_| gen_any(t, cfg, depth - 1)).collect())
        }
        8 => {
            let n = t.range(0, 3);
            let mut m = BTreeMap::new();
            for _ in 0..n {
                let k = if t.chance(1, 2) {
                    MapKey::Int(gen_small_int(t))
                } else {
                    MapKey::Str(gen_str(t, cfg))
                };
                m.insert(k, gen_any(t, cfg, depth - 1));
            }
            Term::Map(m)
        }
        _ => {
            // set of arrays / maps (allowed by the wire format)
            let n = t.range(1, 2);
            Term::Set(
                (0..n)
                    .map(|_| Term::Array(vec![Term::Int(gen_small_int(t))]))
                    .collect(),
            )
        }
    }
}

pub fn gen_sig(t: &mut Tape, cfg: &GenCfg) -> (&'static str, &'static [Ty]) {
    if cfg.sigs.is_empty() {
        let i = t.pick(SIGS.len());
        SIGS[i]
    } else {
        let i = t.pick(cfg.sigs.len());
        SIGS[cfg.sigs[i] % SIGS.len()]
    }
}

/// a small per-case vocabulary makes joins and recursion likely
pub fn gen_sig_subset(t: &mut Tape) -> Vec<usize> {
    let n = t.range(2, 5);
    (0..n).map(|_| t.pick(SIGS.len())).collect()
}

pub fn gen_fact(t: &mut Tape, cfg: &GenCfg) -> Pred {
    let (name, tys) = gen_sig(t, cfg);
    if cfg.off_arity && t.chance(1, 6) {
        // same name, other arity: the signature's columns plus extra ones, or one column less.
        // Such facts must never match a predicate of the declared arity.
        let mut terms: Vec<Term> = tys.iter().map(|ty| gen_const(t, *ty, cfg)).collect();
        if terms.len() >= 2 && t.chance(1, 3) {
            terms.pop();
        } else {
            let extra = t.range(1, 2);
            for _ in 0..extra {
                let ty = *t.choose(&[Ty::Int, Ty::Str, Ty::Bool]);
                terms.push(gen_const(t, ty, cfg));
            }
        }
        return Pred {
            name: name.to_string(),
            terms,
        };
    }
    if cfg.typed || t.chance(3, 4) {
        Pred {
            name: name.to_string(),
            terms: tys.iter().map(|ty| gen_const(t, *ty, cfg)).collect(),
        }
    } else {
        // off-signature fact: same name, other arity or types
        let n = t.range(1, 3);
        Pred {
            name: name.to_string(),
            terms: (0..n).map(|_| gen_any(t, cfg, 1)).collect(),
        }
    }
}

/// environment of bound variables (name -> type)
pub type Env = BTreeMap<String, Ty>;

pub fn gen_body_pred(t: &mut Tape, cfg: &GenCfg, env: &mut Env) -> Pred {
    let (name, tys) = gen_sig(t, cfg);
    let mut terms = vec![];
    for ty in tys {
        if t.chance(2, 3) {
            let v = t.choose(var_names(*ty)).to_string();
            env.insert(v.clone(), *ty);
            terms.push(Term::Var(v));
        } else {
            terms.push(gen_const(t, *ty, cfg));
        }
    }
    Pred {
        name: name.to_string(),
        terms,
    }
}

pub fn gen_scopes(t: &mut Tape, cfg: &GenCfg) -> Vec<Scope> {
    if !cfg.scopes || !t.chance(1, 3) {
        return vec![];
    }
    let n = t.range(1, 2);
    (0..n)
        .map(|_| match t.pick(3) {
            0 => Scope::Authority,
            1 => Scope::Previous,
            _ => Scope::Key(t.pick(cfg.n_keys.max(1))),
        })
        .collect()
}

pub fn gen_rule_body(t: &mut Tape, cfg: &GenCfg, min_preds: usize) -> (Vec<Pred>, Vec<Expr>, Env) {
    let mut env = Env::new();
    let n = t.weighted(&[if min_preds == 0 { 1 } else { 0 }, 6, 3, 1]).max(min_preds);
    let body: Vec<Pred> = (0..n).map(|_| gen_body_pred(t, cfg, &mut env)).collect();
    let mut exprs = vec![];
    if cfg.exprs {
        let ne = if body.is_empty() { 1 } else { t.weighted(&[5, 3, 1]) };
        for _ in 0..ne {
            exprs.push(if cfg.typed {
                gen_typed_expr(t, cfg, &env)
            } else {
                gen_untyped_expr(t, cfg, &env)
            });
        }
    } else if body.is_empty() {
        exprs.push(Expr {
            ops: vec![Op::Value(Term::Bool(true))],
        });
    }
    (body, exprs, env)
}

pub fn gen_rule(t: &mut Tape, cfg: &GenCfg) -> Rule {
    let typed_cfg;
    let cfg = if cfg.typed_rules && !cfg.typed {
        typed_cfg = GenCfg {
            typed: true,
            ..cfg.clone()
        };
        &typed_cfg
    } else {
        cfg
    };
    let (body, exprs, env) = gen_rule_body(t, cfg, 1);
    let (name, tys) = gen_sig(t, cfg);
    let mut terms = vec![];
    for ty in tys {
        let candidates: Vec<&String> = env.iter().filter(|(_, vt)| *vt == ty).map(|(n, _)| n).collect();
        if !candidates.is_empty() && t.chance(3, 4) {
            terms.push(Term::Var((*t.choose(&candidates)).clone()));
        } else if cfg.allow_unbound_head && t.chance(1, 8) {
            terms.push(Term::Var("unbound".to_string()));
        } else {
            terms.push(gen_const(t, *ty, cfg));
        }
    }
    Rule {
        head: Pred {
            name: name.to_string(),
            terms,
        },
        body,
        exprs,
        scopes: gen_scopes(t, cfg),
    }
}

pub fn gen_query(t: &mut Tape, cfg: &GenCfg) -> Rule {
    let (body, exprs, _) = gen_rule_body(t, cfg, 0);
    Rule::query(body, exprs, gen_scopes(t, cfg))
}

pub fn gen_check(t: &mut Tape, cfg: &GenCfg) -> Check {
    let kind = match t.weighted(&[4, 2, if cfg.v33 { 2 } else { 0 }]) {
        0 => CheckKind::One,
        1 => CheckKind::All,
        _ => CheckKind::Reject,
    };
    let n = t.weighted(&[5, 2, 1]) + 1;
    Check {
        kind,
        queries: (0..n).map(|_| gen_query(t, cfg)).collect(),
    }
}

pub fn gen_policy(t: &mut Tape, cfg: &GenCfg) -> Policy {
    let n = t.weighted(&[5, 2]) + 1;
    Policy {
        allow: !t.chance(1, 3),
        queries: (0..n).map(|_| gen_query(t, cfg)).collect(),
    }
}

pub fn gen_block(t: &mut Tape, cfg: &GenCfg) -> Block {
    let nf = t.range(0, cfg.max_facts);
    let nr = t.range(0, cfg.max_rules);
    let nc = t.range(0, cfg.max_checks);
    Block {
        facts: (0..nf).map(|_| gen_fact(t, cfg)).collect(),
        rules: (0..nr).map(|_| gen_rule(t, cfg)).collect(),
        checks: (0..nc).map(|_| gen_check(t, cfg)).collect(),
        scopes: gen_scopes(t, cfg),
        context: if t.chance(1, 4) {
            Some(gen_str(t, cfg))
        } else {
            None
        },
    }
}

pub fn gen_authorizer(t: &mut Tape, cfg: &GenCfg) -> AuthorizerAst {
    let block = gen_block(t, cfg);
    let np = t.range(0, 3);
    let mut policies: Vec<Policy> = (0..np).map(|_| gen_policy(t, cfg)).collect();
    if t.chance(2, 3) {
        // a catch-all at the end so that decisions are not all "no matching policy"
        policies.push(Policy {
            allow: t.chance(3, 4),
            queries: vec![Rule::query(
                vec![],
                vec![Expr {
                    ops: vec![Op::Value(Term::Bool(true))],
                }],
                vec![],
            )],
        });
    }
    AuthorizerAst {
        block: Block { context: None, ..block },
        policies,
    }
}

// ---------------------------------------------------------------------------------------------
// typed (total) expressions
// ---------------------------------------------------------------------------------------------

/// expression tree; lowered to postfix ops the way the grammar does
#[derive(Clone, Debug)]
pub enum ETree {
    Val(Term),
    Un(Un, Box<ETree>),
    Bin(Bin, Box<ETree>, Box<ETree>),
    /// left.op(closure)
    Clo(Bin, Box<ETree>, Vec<String>, Box<ETree>),
}

impl ETree {
    pub fn lower(&self, out: &mut Vec<Op>) {
        match self {
            ETree::Val(t) => out.push(Op::Value(t.clone())),
            ETree::Un(u, e) => {
                e.lower(out);
                out.push(Op::Unary(u.clone()));
            }
            ETree::Bin(b, l, r) => {
                l.lower(out);
                match b {
                    Bin::LazyAnd | Bin::LazyOr => {
                        let mut inner = vec![];
                        r.lower(&mut inner);
                        out.push(Op::Closure(vec![], inner));
                    }
                    _ => r.lower(out),
                }
                out.push(Op::Binary(b.clone()));
            }
            ETree::Clo(b, l, params, body) => {
                l.lower(out);
                let mut inner = vec![];
                body.lower(&mut inner);
                out.push(Op::Closure(params.clone(), inner));
                out.push(Op::Binary(b.clone()));
            }
        }
    }
    pub fn to_expr(&self) -> Expr {
        let mut ops = vec![];
        self.lower(&mut ops);
        Expr { ops }
    }

    /// precedence level in the grammar (binary_op_0 .. binary_op_7), 9 = expr_term / method chain
    fn level(&self) -> u8 {
        match self {
            ETree::Val(_) => 9,
            ETree::Un(Un::Parens, _) => 9,
            ETree::Un(Un::Negate, _) => 8,
            ETree::Un(_, _) => 9, // methods
            ETree::Clo(_, _, _, _) => 9,
            ETree::Bin(b, _, _) => bin_level(b),
        }
    }

    /// Insert explicit `Parens` operations exactly where the grammar needs them, so that the
    /// printed expression parses back to the same operation sequence (the printer emits
    /// parentheses only for `Parens` operations). Operators the grammar cannot produce (strict
    /// `And` / `Or`) are left alone.
    pub fn grammar_normal(self) -> ETree {
        fn wrap(e: ETree) -> ETree {
            ETree::Un(Un::Parens, Box::new(e))
        }
        // a receiver of a method call must be a term, a parenthesised expression or a method call
        fn receiver(e: ETree) -> ETree {
            let e = e.grammar_normal();
            match &e {
                ETree::Val(Term::Int(i)) if *i < 0 => wrap(e),
                // the date literal swallows everything up to the next separator: `date.type()`
                // is not in the language, `(date).type()` is
                ETree::Val(Term::Date(_)) => wrap(e),
                _ if e.level() == 9 => e,
                _ => wrap(e),
            }
        }
        match self {
            ETree::Val(t) => ETree::Val(t),
            ETree::Un(Un::Parens, e) => ETree::Un(Un::Parens, Box::new(e.grammar_normal())),
            ETree::Un(Un::Negate, e) => {
                // `!` is followed by an expr6: anything looser needs parentheses; a nested
                // negation or comparison etc. as well
                let e = e.grammar_normal();
                if matches!(e.level(), 6 | 7 | 8 | 9) {
                    ETree::Un(Un::Negate, Box::new(e))
                } else {
                    ETree::Un(Un::Negate, Box::new(wrap(e)))
                }
            }
            ETree::Un(u, e) => ETree::Un(u, Box::new(receiver(*e))),
            ETree::Clo(b, l, p, body) => ETree::Clo(b, Box::new(receiver(*l)), p, Box::new(body.grammar_normal())),
            ETree::Bin(b, l, r) => {
                let lvl = bin_level(&b);
                if lvl == 9 {
                    // method with one argument: receiver.method(expr)
                    return ETree::Bin(b, Box::new(receiver(*l)), Box::new(r.grammar_normal()));
                }
                if lvl == 10 {
                    // not producible by the grammar
                    return ETree::Bin(b, Box::new(l.grammar_normal()), Box::new(r.grammar_normal()));
                }
                let l = l.grammar_normal();
                let r = r.grammar_normal();
                // `!x` extends to the right over + - * /: never leave it bare next to them
                let neg_sensitive = lvl >= 6;
                let l_ok = if lvl == 2 { l.level() > lvl } else { l.level() >= lvl } && !(neg_sensitive && l.level() == 8);
                let r_ok = r.level() > lvl && !(neg_sensitive && r.level() == 8);
                // a negation as the left operand of anything looser also swallows the operator's
                // right side only for levels >= 6; for looser operators it is fine
                ETree::Bin(
                    b,
                    Box::new(if l_ok { l } else { wrap(l) }),
                    Box::new(if r_ok { r } else { wrap(r) }),
                )
            }
        }
    }
}

fn bin_level(b: &Bin) -> u8 {
    match b {
        Bin::LazyOr => 0,
        Bin::LazyAnd => 1,
        Bin::LessThan
        | Bin::GreaterThan
        | Bin::LessOrEqual
        | Bin::GreaterOrEqual
        | Bin::Equal
        | Bin::NotEqual
        | Bin::HeterogeneousEqual
        | Bin::HeterogeneousNotEqual => 2,
        Bin::BitwiseXor => 3,
        Bin::BitwiseOr => 4,
        Bin::BitwiseAnd => 5,
        Bin::Add | Bin::Sub => 6,
        Bin::Mul | Bin::Div => 7,
        Bin::And | Bin::Or => 10,
        Bin::Contains
        | Bin::Prefix
        | Bin::Suffix
        | Bin::Regex
        | Bin::Intersection
        | Bin::Union
        | Bin::All
        | Bin::Any
        | Bin::Get
        | Bin::Ffi(_) => 9,
    }
}

fn bx(e: ETree) -> Box<ETree> {
    Box::new(e)
}

fn vars_of(env: &Env, ty: Ty) -> Vec<String> {
    env.iter().filter(|(_, t)| **t == ty).map(|(n, _)| n.clone()).collect()
}

/// an Int-typed total expression together with a bound on its absolute value (None = unbounded,
/// i.e. may be any i64 and must not enter arithmetic)
fn gen_int_expr(t: &mut Tape, cfg: &GenCfg, env: &Env, depth: usize) -> (ETree, Option<u64>) {
    let vars = vars_of(env, Ty::Int);
    let choice = if depth == 0 {
        t.weighted(&[3, if vars.is_empty() { 0 } else { 3 }])
    } else {
        t.weighted(&[3, if vars.is_empty() { 0 } else { 3 }, 2, 2, 1, 1, 1])
    };
    match choice {
        0 => {
            let v = gen_small_int(t);
            (ETree::Val(Term::Int(v)), Some(v.unsigned_abs()))
        }
        1 => (ETree::Val(Term::Var(t.choose(&vars).clone())), None),
        2 => {
            // arithmetic on bounded operands
            let (l, lb) = gen_int_expr(t, cfg, env, depth - 1);
            let (r, rb) = gen_int_expr(t, cfg, env, depth - 1);
            match (lb, rb) {
                (Some(a), Some(b)) if a < (1 << 30) && b < (1 << 30) => {
                    let (op, bound) = match t.pick(3) {
                        0 => (Bin::Add, a + b),
                        1 => (Bin::Sub, a + b),
                        _ => (Bin::Mul, a * b),
                    };
                    (ETree::Bin(op, bx(l), bx(r)), Some(bound))
                }
                _ => {
                    // fall back to a bitwise operator, total on all of i64
                    let op = [Bin::BitwiseAnd, Bin::BitwiseOr, Bin::BitwiseXor][t.pick(3)].clone();
                    (ETree::Bin(op, bx(l), bx(r)), None)
                }
            }
        }
        3 => {
            let (l, _) = gen_int_expr(t, cfg, env, depth - 1);
            let (r, _) = gen_int_expr(t, cfg, env, depth - 1);
            let op = [Bin::BitwiseAnd, Bin::BitwiseOr, Bin::BitwiseXor][t.pick(3)].clone();
            (ETree::Bin(op, bx(l), bx(r)), None)
        }
        4 => {
            // division by a non-zero positive constant is total (MIN / -1 excluded)
            let (l, lb) = gen_int_expr(t, cfg, env, depth - 1);
            let d = *t.choose(&[1i64, 2, 3, 7]);
            (ETree::Bin(Bin::Div, bx(l), bx(ETree::Val(Term::Int(d)))), lb)
        }
        5 => {
            // length of something
            let inner = match t.pick(3) {
                0 => gen_str_expr(t, cfg, env, 0),
                1 => ETree::Val(gen_const(t, Ty::Bytes, cfg)),
                _ => ETree::Val(gen_const(t, Ty::SetInt, cfg)),
            };
            (ETree::Un(Un::Length, bx(inner)), Some(1 << 20))
        }
        _ => {
            let (e, b) = gen_int_expr(t, cfg, env, depth - 1);
            (ETree::Un(Un::Parens, bx(e)), b)
        }
    }
}

fn gen_str_expr(t: &mut Tape, cfg: &GenCfg, env: &Env, depth: usize) -> ETree {
    let vars = vars_of(env, Ty::Str);
    match t.weighted(&[3, if vars.is_empty() { 0 } else { 3 }, if depth > 0 { 1 } else { 0 }]) {
        0 => ETree::Val(Term::Str(gen_str(t, cfg))),
        1 => ETree::Val(Term::Var(t.choose(&vars).clone())),
        _ => ETree::Bin(
            Bin::Add,
            bx(gen_str_expr(t, cfg, env, depth - 1)),
            bx(gen_str_expr(t, cfg, env, depth - 1)),
        ),
    }
}

fn gen_anyval_expr(t: &mut Tape, cfg: &GenCfg, env: &Env) -> ETree {
    // a value of arbitrary type: a variable of any type or a constant
    let all: Vec<String> = env.keys().cloned().collect();
    if !all.is_empty() && t.chance(1, 2) {
        ETree::Val(Term::Var(t.choose(&all).clone()))
    } else {
        ETree::Val(gen_any(t, cfg, 1))
    }
}

pub const SAFE_REGEX: &[&str] = &["^a", "b$", "file[0-9]", ".*", "^$", "r.s", "(", "[a-z]+"];

pub fn gen_bool_expr(t: &mut Tape, cfg: &GenCfg, env: &Env, depth: usize) -> ETree {
    let bvars = vars_of(env, Ty::Bool);
    let n_alts = if depth == 0 { 3 } else { 14 };
    let mut weights = vec![2, if bvars.is_empty() { 0 } else { 2 }, 4, 3, 2, 2, 2, 2, 1, 1, 1, 1, 1, 1];
    weights.truncate(n_alts);
    if !cfg.v33 {
        // no heterogeneous equality, typeof, lazy ops, closures before 3.3
        for i in [6usize, 9, 10, 12, 13] {
            if i < weights.len() {
                weights[i] = 0;
            }
        }
    }
    if !cfg.closures && weights.len() > 12 {
        weights[12] = 0;
        weights[13] = 0;
    }
    if !cfg.strict_bool_ops && weights.len() > 8 {
        weights[8] = 0;
    }
    match t.weighted(&weights) {
        0 => ETree::Val(Term::Bool(!t.chance(1, 4))),
        1 => ETree::Val(Term::Var(t.choose(&bvars).clone())),
        2 => {
            // integer comparison
            let d = depth.min(2);
            let (l, _) = gen_int_expr(t, cfg, env, d);
            let (r, _) = gen_int_expr(t, cfg, env, d.saturating_sub(1));
            let op = [
                Bin::LessThan,
                Bin::GreaterThan,
                Bin::LessOrEqual,
                Bin::GreaterOrEqual,
                Bin::Equal,
                Bin::NotEqual,
            ][t.pick(6)]
            .clone();
            ETree::Bin(op, bx(l), bx(r))
        }
        3 => {
            // string predicates
            let l = gen_str_expr(t, cfg, env, 1);
            // strings built during evaluation on both sides: the same new string can be
            // produced twice in one evaluation
            if t.chance(1, 5) {
                let r = if t.chance(1, 2) { l.clone() } else { gen_str_expr(t, cfg, env, 1) };
                let op = if t.chance(2, 3) { Bin::Equal } else { Bin::NotEqual };
                return ETree::Bin(op, bx(l), bx(r));
            }
            match t.pick(6) {
                0 => ETree::Bin(Bin::Prefix, bx(l), bx(gen_str_expr(t, cfg, env, 0))),
                1 => ETree::Bin(Bin::Suffix, bx(l), bx(gen_str_expr(t, cfg, env, 0))),
                2 => ETree::Bin(Bin::Contains, bx(l), bx(gen_str_expr(t, cfg, env, 0))),
                3 => ETree::Bin(Bin::Regex, bx(l), bx(ETree::Val(Term::s(*t.choose(SAFE_REGEX))))),
                4 => ETree::Bin(Bin::Equal, bx(l), bx(gen_str_expr(t, cfg, env, 0))),
                _ => ETree::Bin(Bin::NotEqual, bx(l), bx(gen_str_expr(t, cfg, env, 0))),
            }
        }
        4 => ETree::Un(Un::Negate, bx(gen_bool_expr(t, cfg, env, depth - 1))),
        5 => {
            // set operations
            let svars = vars_of(env, Ty::SetInt);
            let l = if !svars.is_empty() && t.chance(1, 2) {
                ETree::Val(Term::Var(t.choose(&svars).clone()))
            } else {
                ETree::Val(gen_const(t, Ty::SetInt, cfg))
            };
            match t.pick(4) {
                0 => {
                    let (r, _) = gen_int_expr(t, cfg, env, 0);
                    ETree::Bin(Bin::Contains, bx(l), bx(r))
                }
                1 => ETree::Bin(Bin::Contains, bx(l), bx(ETree::Val(gen_const(t, Ty::SetInt, cfg)))),
                2 => ETree::Bin(
                    Bin::Equal,
                    bx(ETree::Bin(Bin::Union, bx(l), bx(ETree::Val(gen_const(t, Ty::SetInt, cfg))))),
                    bx(ETree::Val(gen_const(t, Ty::SetInt, cfg))),
                ),
                _ => ETree::Bin(
                    Bin::NotEqual,
                    bx(ETree::Bin(
                        Bin::Intersection,
                        bx(l),
                        bx(ETree::Val(gen_const(t, Ty::SetInt, cfg))),
                    )),
                    bx(ETree::Val(gen_const(t, Ty::SetInt, cfg))),
                ),
            }
        }
        6 => {
            // heterogeneous (in)equality is total on every pair
            let l = gen_anyval_expr(t, cfg, env);
            let r = gen_anyval_expr(t, cfg, env);
            let op = if t.chance(1, 2) {
                Bin::HeterogeneousEqual
            } else {
                Bin::HeterogeneousNotEqual
            };
            ETree::Bin(op, bx(l), bx(r))
        }
        7 => {
            // date / bytes / bool comparisons
            match t.pick(3) {
                0 => {
                    let dv = vars_of(env, Ty::Date);
                    let l = if !dv.is_empty() && t.chance(2, 3) {
                        ETree::Val(Term::Var(t.choose(&dv).clone()))
                    } else {
                        ETree::Val(gen_const(t, Ty::Date, cfg))
                    };
                    let op = [
                        Bin::LessThan,
                        Bin::GreaterThan,
                        Bin::LessOrEqual,
                        Bin::GreaterOrEqual,
                        Bin::Equal,
                        Bin::NotEqual,
                    ][t.pick(6)]
                    .clone();
                    ETree::Bin(op, bx(l), bx(ETree::Val(gen_const(t, Ty::Date, cfg))))
                }
                1 => {
                    let bv = vars_of(env, Ty::Bytes);
                    let l = if !bv.is_empty() && t.chance(2, 3) {
                        ETree::Val(Term::Var(t.choose(&bv).clone()))
                    } else {
                        ETree::Val(gen_const(t, Ty::Bytes, cfg))
                    };
                    let op = if t.chance(1, 2) { Bin::Equal } else { Bin::NotEqual };
                    ETree::Bin(op, bx(l), bx(ETree::Val(gen_const(t, Ty::Bytes, cfg))))
                }
                _ => {
                    let op = if t.chance(1, 2) { Bin::Equal } else { Bin::NotEqual };
                    ETree::Bin(
                        op,
                        bx(gen_bool_expr(t, cfg, env, depth - 1)),
                        bx(gen_bool_expr(t, cfg, env, depth - 1)),
                    )
                }
            }
        }
        8 => {
            let op = if t.chance(1, 2) { Bin::And } else { Bin::Or };
            ETree::Bin(
                op,
                bx(gen_bool_expr(t, cfg, env, depth - 1)),
                bx(gen_bool_expr(t, cfg, env, depth - 1)),
            )
        }
        9 => {
            let op = if t.chance(1, 2) { Bin::LazyAnd } else { Bin::LazyOr };
            ETree::Bin(
                op,
                bx(gen_bool_expr(t, cfg, env, depth - 1)),
                bx(gen_bool_expr(t, cfg, env, depth - 1)),
            )
        }
        10 => {
            // typeof
            let v = gen_anyval_expr(t, cfg, env);
            let tn = *t.choose(&["integer", "string", "date", "bytes", "bool", "set", "null", "array", "map"]);
            ETree::Bin(
                if t.chance(1, 2) { Bin::Equal } else { Bin::HeterogeneousEqual },
                bx(ETree::Un(Un::TypeOf, bx(v))),
                bx(ETree::Val(Term::s(tn))),
            )
        }
        11 => ETree::Un(Un::Parens, bx(gen_bool_expr(t, cfg, env, depth - 1))),
        12 => {
            // closure over a set / array of integers; parameter name unique by depth
            let p = format!("c{}", depth);
            let coll = if t.chance(1, 2) {
                ETree::Val(gen_const(t, Ty::SetInt, cfg))
            } else {
                let n = t.range(0, 3);
                ETree::Val(Term::Array((0..n).map(|_| Term::Int(gen_small_int(t))).collect()))
            };
            let mut env2 = env.clone();
            env2.insert(p.clone(), Ty::Int);
            // closure parameters are named c<depth>: var_type() does not know them, add directly
            let body = gen_closure_body(t, cfg, &env2, &p, depth - 1);
            let op = if t.chance(1, 2) { Bin::All } else { Bin::Any };
            ETree::Clo(op, bx(coll), vec![p], bx(body))
        }
        _ => {
            // get on array / map, compared heterogeneously (total)
            let n = t.range(0, 3);
            let arr = Term::Array((0..n).map(|_| Term::Int(gen_small_int(t))).collect());
            let idx = gen_small_int(t);
            ETree::Bin(
                Bin::HeterogeneousEqual,
                bx(ETree::Bin(Bin::Get, bx(ETree::Val(arr)), bx(ETree::Val(Term::Int(idx))))),
                bx(gen_anyval_expr(t, cfg, env)),
            )
        }
    }
}

fn gen_closure_body(t: &mut Tape, cfg: &GenCfg, env: &Env, param: &str, depth: usize) -> ETree {
    // compare the parameter with an int expression, optionally combined with another boolean
    let (r, _) = gen_int_expr(t, cfg, env, 0);
    let cmp = ETree::Bin(
        [Bin::LessThan, Bin::GreaterOrEqual, Bin::Equal, Bin::HeterogeneousNotEqual][t.pick(4)].clone(),
        bx(ETree::Val(Term::Var(param.to_string()))),
        bx(r),
    );
    if depth > 0 && t.chance(1, 3) {
        ETree::Bin(Bin::LazyAnd, bx(cmp), bx(gen_bool_expr(t, cfg, env, depth - 1)))
    } else {
        cmp
    }
}

pub fn gen_typed_expr(t: &mut Tape, cfg: &GenCfg, env: &Env) -> Expr {
    let depth = t.weighted(&[2, 4, 2, 1]);
    let e = gen_bool_expr(t, cfg, env, depth);
    if cfg.grammar_normal {
        e.grammar_normal().to_expr()
    } else {
        e.to_expr()
    }
}

// ---------------------------------------------------------------------------------------------
// untyped (possibly failing) expressions
// ---------------------------------------------------------------------------------------------

pub fn gen_untyped_tree(t: &mut Tape, cfg: &GenCfg, env: &Env, depth: usize) -> ETree {
    let all: Vec<String> = env.keys().cloned().collect();
    if depth == 0 || t.chance(1, 4) {
        return if !all.is_empty() && t.chance(1, 2) {
            ETree::Val(Term::Var(t.choose(&all).clone()))
        } else {
            ETree::Val(gen_any(t, cfg, 1))
        };
    }
    match t.weighted(&[2, 8, if cfg.closures { 2 } else { 0 }]) {
        0 => {
            let u = ALL_UN[t.pick(ALL_UN.len())].clone();
            ETree::Un(u, bx(gen_untyped_tree(t, cfg, env, depth - 1)))
        }
        1 => {
            let mut b = ALL_BIN[t.pick(ALL_BIN.len())].clone();
            if matches!(b, Bin::All | Bin::Any) {
                b = Bin::Div;
            }
            ETree::Bin(
                b,
                bx(gen_untyped_tree(t, cfg, env, depth - 1)),
                bx(gen_untyped_tree(t, cfg, env, depth - 1)),
            )
        }
        _ => {
            let p = if t.chance(1, 6) && !all.is_empty() {
                t.choose(&all).clone() // deliberate shadowing
            } else {
                format!("c{}", depth)
            };
            let mut env2 = env.clone();
            env2.insert(p.clone(), Ty::Any);
            ETree::Clo(
                if t.chance(1, 2) { Bin::All } else { Bin::Any },
                bx(gen_untyped_tree(t, cfg, env, depth - 1)),
                vec![p],
                bx(gen_untyped_tree(t, cfg, &env2, depth - 1)),
            )
        }
    }
}

pub fn gen_untyped_expr(t: &mut Tape, cfg: &GenCfg, env: &Env) -> Expr {
    let depth = t.weighted(&[1, 4, 3, 1]);
    let e = gen_untyped_tree(t, cfg, env, depth);
    if cfg.grammar_normal {
        e.grammar_normal().to_expr()
    } else {
        e.to_expr()
    }
}

/// collect the predicate names used by rule bodies / checks / policies of a block
pub fn body_pred_names(b: &Block, policies: &[Policy]) -> BTreeSet<String> {
    let mut s = BTreeSet::new();
    for r in b.all_rules() {
        for p in &r.body {
            s.insert(p.name.clone());
        }
    }
    for p in policies {
        for q in &p.queries {
            for bp in &q.body {
                s.insert(bp.name.clone());
            }
        }
    }
    s
}
