//! RefEval: expression semantics over plain values (real strings, no symbol table)
use crate::ast::*;
use std::collections::{BTreeMap, BTreeSet};

#[derive(Clone, Debug, PartialEq, Eq, Hash, PartialOrd, Ord, serde::Serialize, serde::Deserialize)]
pub enum EvalErr {
    Overflow,
    DivideByZero,
    InvalidType,
    InvalidStack,
    UnknownVariable,
    ShadowedVariable,
    UndefinedExtern,
    ExternError,
    /// the result depends on an iteration order the specification does not fix (error in some
    /// but not all elements of a set / string-keyed map under all/any)
    Ambiguous,
}

pub type EvalResult = Result<Term, EvalErr>;
pub type Extern<'a> = &'a dyn Fn(&str, Term, Option<Term>) -> Option<Result<Term, String>>;

pub fn no_externs(_: &str, _: Term, _: Option<Term>) -> Option<Result<Term, String>> {
    None
}

thread_local! {
    /// set when an all/any iterated a collection whose iteration order the specification does not
    /// fix (side effects such as extern call counts are then not comparable)
    pub static ORDER_SENSITIVE: std::cell::Cell<bool> = std::cell::Cell::new(false);
}

enum Elem {
    T(Term),
    C(Vec<String>, Vec<Op>),
}

pub type Bindings = BTreeMap<String, Term>;

pub fn type_name(t: &Term) -> Option<&'static str> {
    Some(match t {
        Term::Int(_) => "integer",
        Term::Str(_) => "string",
        Term::Date(_) => "date",
        Term::Bytes(_) => "bytes",
        Term::Bool(_) => "bool",
        Term::Set(_) => "set",
        Term::Null => "null",
        Term::Array(_) => "array",
        Term::Map(_) => "map",
        Term::Var(_) | Term::Param(_) => return None,
    })
}

fn unary(u: &Un, v: Term, ext: Extern) -> EvalResult {
    match (u, v) {
        (Un::Negate, Term::Bool(b)) => Ok(Term::Bool(!b)),
        (Un::Parens, v) => Ok(v),
        (Un::Length, Term::Str(s)) => Ok(Term::Int(s.len() as i64)),
        (Un::Length, Term::Bytes(b)) => Ok(Term::Int(b.len() as i64)),
        (Un::Length, Term::Set(s)) => Ok(Term::Int(s.len() as i64)),
        (Un::Length, Term::Array(s)) => Ok(Term::Int(s.len() as i64)),
        (Un::Length, Term::Map(s)) => Ok(Term::Int(s.len() as i64)),
        (Un::TypeOf, v) => type_name(&v).map(Term::s).ok_or(EvalErr::InvalidType),
        (Un::Ffi(name), v) => match ext(name, v, None) {
            None => Err(EvalErr::UndefinedExtern),
            Some(Ok(t)) => Ok(t),
            Some(Err(_)) => Err(EvalErr::ExternError),
        },
        _ => Err(EvalErr::InvalidType),
    }
}

fn same_type(a: &Term, b: &Term) -> bool {
    std::mem::discriminant(a) == std::mem::discriminant(b)
}

fn binary(op: &Bin, l: Term, r: Term, ext: Extern) -> EvalResult {
    use Bin::*;
    use Term::*;
    let b = |x: bool| Ok(Bool(x));
    match (op, l, r) {
        (LessThan, Int(i), Int(j)) => b(i < j),
        (GreaterThan, Int(i), Int(j)) => b(i > j),
        (LessOrEqual, Int(i), Int(j)) => b(i <= j),
        (GreaterOrEqual, Int(i), Int(j)) => b(i >= j),
        (LessThan, Date(i), Date(j)) => b(i < j),
        (GreaterThan, Date(i), Date(j)) => b(i > j),
        (LessOrEqual, Date(i), Date(j)) => b(i <= j),
        (GreaterOrEqual, Date(i), Date(j)) => b(i >= j),

        (Add, Int(i), Int(j)) => i.checked_add(j).map(Int).ok_or(EvalErr::Overflow),
        (Sub, Int(i), Int(j)) => i.checked_sub(j).map(Int).ok_or(EvalErr::Overflow),
        (Mul, Int(i), Int(j)) => i.checked_mul(j).map(Int).ok_or(EvalErr::Overflow),
        (Div, Int(_), Int(0)) => Err(EvalErr::DivideByZero),
        (Div, Int(i), Int(j)) => i.checked_div(j).map(Int).ok_or(EvalErr::Overflow),
        (BitwiseAnd, Int(i), Int(j)) => Ok(Int(i & j)),
        (BitwiseOr, Int(i), Int(j)) => Ok(Int(i | j)),
        (BitwiseXor, Int(i), Int(j)) => Ok(Int(i ^ j)),

        (Prefix, Str(s), Str(p)) => b(s.starts_with(&p)),
        (Suffix, Str(s), Str(p)) => b(s.ends_with(&p)),
        (Contains, Str(s), Str(p)) => b(s.contains(&p)),
        (Regex, Str(s), Str(p)) => b(regex::Regex::new(&p).map(|re| re.is_match(&s)).unwrap_or(false)),
        (Add, Str(s), Str(p)) => Ok(Str(format!("{s}{p}"))),

        (And, Bool(i), Bool(j)) => b(i & j),
        (Or, Bool(i), Bool(j)) => b(i | j),

        (Intersection, Set(x), Set(y)) => Ok(Set(x.intersection(&y).cloned().collect())),
        (Union, Set(x), Set(y)) => Ok(Set(x.union(&y).cloned().collect())),
        (Contains, Set(x), Set(y)) => b(x.is_superset(&y)),
        (Contains, Set(x), y @ (Int(_) | Date(_) | Bool(_) | Str(_) | Bytes(_))) => b(x.contains(&y)),

        (Contains, Array(x), y) => b(x.contains(&y)),
        (Prefix, Array(x), Array(y)) => b(x.starts_with(&y)),
        (Suffix, Array(x), Array(y)) => b(x.ends_with(&y)),
        (Get, Array(x), Int(i)) => Ok(usize::try_from(i).ok().and_then(|i| x.get(i).cloned()).unwrap_or(Null)),

        (Contains, Map(m), Int(i)) => b(m.contains_key(&MapKey::Int(i))),
        (Contains, Map(m), Str(s)) => b(m.contains_key(&MapKey::Str(s))),
        (Contains, Map(_), _) => b(false),
        (Get, Map(m), Int(i)) => Ok(m.get(&MapKey::Int(i)).cloned().unwrap_or(Null)),
        (Get, Map(m), Str(s)) => Ok(m.get(&MapKey::Str(s)).cloned().unwrap_or(Null)),

        // equality: strict operators demand the same type, heterogeneous ones are total
        (Equal, x, y) => {
            if same_type(&x, &y) {
                b(x == y)
            } else {
                Err(EvalErr::InvalidType)
            }
        }
        (NotEqual, x, y) => {
            if same_type(&x, &y) {
                b(x != y)
            } else {
                Err(EvalErr::InvalidType)
            }
        }
        (HeterogeneousEqual, x, y) => b(same_type(&x, &y) && x == y),
        (HeterogeneousNotEqual, x, y) => b(!(same_type(&x, &y) && x == y)),

        (Ffi(name), x, y) => match ext(name, x, Some(y)) {
            None => Err(EvalErr::UndefinedExtern),
            Some(Ok(t)) => Ok(t),
            Some(Err(_)) => Err(EvalErr::ExternError),
        },
        _ => Err(EvalErr::InvalidType),
    }
}

fn with_closure(op: &Bin, left: Term, params: &[String], body: &[Op], env: &Bindings, ext: Extern) -> EvalResult {
    match (op, left, params) {
        (Bin::LazyOr, Term::Bool(true), []) => Ok(Term::Bool(true)),
        (Bin::LazyOr, Term::Bool(false), []) => eval_ops(body, env, ext),
        (Bin::LazyAnd, Term::Bool(false), []) => Ok(Term::Bool(false)),
        (Bin::LazyAnd, Term::Bool(true), []) => eval_ops(body, env, ext),
        (Bin::All | Bin::Any, coll, [p]) => {
            let is_all = matches!(op, Bin::All);
            // (elements, order is specified?)
            let (elems, ordered): (Vec<Term>, bool) = match coll {
                Term::Set(s) => {
                    let n = s.len();
                    (s.into_iter().collect(), n <= 1)
                }
                Term::Array(a) => (a, true),
                Term::Map(m) => {
                    let str_keys = m.keys().filter(|k| matches!(k, MapKey::Str(_))).count();
                    (
                        m.into_iter()
                            .map(|(k, v)| {
                                Term::Array(vec![
                                    match k {
                                        MapKey::Int(i) => Term::Int(i),
                                        MapKey::Str(s) => Term::Str(s),
                                        MapKey::Param(p) => Term::Param(p),
                                    },
                                    v,
                                ])
                            })
                            .collect(),
                        str_keys <= 1,
                    )
                }
                _ => return Err(EvalErr::InvalidType),
            };
            if !ordered {
                ORDER_SENSITIVE.with(|c| c.set(true));
            }
            let mut results = vec![];
            for e in elems {
                let mut env2 = env.clone();
                env2.insert(p.clone(), e);
                let r = match eval_ops(body, &env2, ext) {
                    Ok(Term::Bool(b)) => Ok(b),
                    Ok(_) => Err(EvalErr::InvalidType),
                    Err(e) => Err(e),
                };
                if ordered {
                    match r {
                        Ok(b) => {
                            if b != is_all {
                                return Ok(Term::Bool(b));
                            }
                        }
                        Err(e) => return Err(e),
                    }
                } else {
                    results.push(r);
                }
            }
            if ordered {
                return Ok(Term::Bool(is_all));
            }
            let any_err = results.iter().any(|r| r.is_err());
            let decisive = results.iter().any(|r| matches!(r, Ok(b) if *b != is_all));
            if !any_err {
                Ok(Term::Bool(if decisive { !is_all } else { is_all }))
            } else if decisive {
                // an element that would stop the iteration coexists with a failing one
                Err(EvalErr::Ambiguous)
            } else {
                let errs: BTreeSet<&EvalErr> = results.iter().filter_map(|r| r.as_ref().err()).collect();
                if errs.len() == 1 {
                    Err((*errs.iter().next().unwrap()).clone())
                } else {
                    Err(EvalErr::Ambiguous)
                }
            }
        }
        _ => Err(EvalErr::InvalidType),
    }
}

pub fn eval_ops(ops: &[Op], env: &Bindings, ext: Extern) -> EvalResult {
    let mut stack: Vec<Elem> = vec![];
    for op in ops {
        match op {
            Op::Value(Term::Var(v)) => match env.get(v) {
                Some(t) => stack.push(Elem::T(t.clone())),
                None => return Err(EvalErr::UnknownVariable),
            },
            Op::Value(t) => stack.push(Elem::T(t.clone())),
            Op::Unary(u) => match stack.pop() {
                Some(Elem::T(t)) => stack.push(Elem::T(unary(u, t, ext)?)),
                _ => return Err(EvalErr::InvalidStack),
            },
            Op::Binary(b) => match (stack.pop(), stack.pop()) {
                (Some(Elem::T(r)), Some(Elem::T(l))) => stack.push(Elem::T(binary(b, l, r, ext)?)),
                (Some(Elem::C(params, body)), Some(Elem::T(l))) => {
                    if params.iter().any(|p| env.contains_key(p)) {
                        return Err(EvalErr::ShadowedVariable);
                    }
                    stack.push(Elem::T(with_closure(b, l, &params, &body, env, ext)?))
                }
                _ => return Err(EvalErr::InvalidStack),
            },
            Op::Closure(p, body) => stack.push(Elem::C(p.clone(), body.clone())),
        }
    }
    if stack.len() == 1 {
        match stack.pop().unwrap() {
            Elem::T(t) => Ok(t),
            _ => Err(EvalErr::InvalidStack),
        }
    } else {
        Err(EvalErr::InvalidStack)
    }
}

pub fn eval(e: &Expr, env: &Bindings, ext: Extern) -> EvalResult {
    eval_ops(&e.ops, env, ext)
}

/// outcome of an expression used as a rule / check constraint
#[derive(Clone, Debug, PartialEq, Eq)]
pub enum Constraint {
    True,
    False,
    Error(EvalErr),
}

pub fn eval_constraint(e: &Expr, env: &Bindings, ext: Extern) -> Constraint {
    match eval(e, env, ext) {
        Ok(Term::Bool(true)) => Constraint::True,
        Ok(Term::Bool(false)) => Constraint::False,
        Ok(_) => Constraint::Error(EvalErr::InvalidType),
        Err(e) => Constraint::Error(e),
    }
}
