//! bridge: evaluate an AST expression with the library's evaluator
use crate::ast::*;
use crate::refeval::{Bindings, EvalErr};
use crate::util::{guard, PanicInfo};
use biscuit_auth::builder::{self as b, Convert};
use biscuit_auth::datalog::{self, ExternFunc, SymbolTable, TemporarySymbolTable};
use std::collections::HashMap;

#[derive(Clone, Debug, PartialEq, Eq)]
pub enum LibResult {
    Ok(Term),
    Err(String),
    /// the evaluator returned a term that cannot be converted back (e.g. unknown symbol)
    Unprintable(String),
    Panic(PanicInfo),
}

pub fn class_of(e: &biscuit_auth::error::Expression) -> String {
    crate::authz::expr_error_class(e)
}

pub fn classes_compatible(r: &EvalErr, lib: &str) -> bool {
    match r {
        EvalErr::Overflow => lib == "Overflow" || lib == "DivideByZero",
        EvalErr::DivideByZero => lib == "DivideByZero",
        EvalErr::InvalidType => lib == "InvalidType",
        EvalErr::InvalidStack => lib == "InvalidStack",
        EvalErr::UnknownVariable => lib == "UnknownVariable",
        EvalErr::ShadowedVariable => lib == "ShadowedVariable",
        EvalErr::UndefinedExtern => lib == "UndefinedExtern",
        EvalErr::ExternError => lib == "ExternEvalError",
        EvalErr::Ambiguous => true,
    }
}

pub fn lib_eval(e: &Expr, env: &Bindings, externs: &HashMap<String, ExternFunc>) -> LibResult {
    let r = guard(|| {
        let mut symbols = SymbolTable::default();
        let de: datalog::Expression = e.to_b().convert(&mut symbols);
        let mut values: HashMap<u32, datalog::Term> = HashMap::new();
        for (k, v) in env {
            let id = symbols.insert(k) as u32;
            values.insert(id, v.to_b().convert(&mut symbols));
        }
        let mut tmp = TemporarySymbolTable::new(&symbols);
        match de.evaluate(&values, &mut tmp, externs) {
            Ok(t) => match b::Term::from_datalog(t, &tmp) {
                Ok(bt) => LibResult::Ok(Term::from_b(&bt)),
                Err(e) => LibResult::Unprintable(format!("{e:?}")),
            },
            Err(e) => LibResult::Err(class_of(&e)),
        }
    });
    match r {
        Ok(r) => r,
        Err(p) => LibResult::Panic(p),
    }
}

/// evaluate raw datalog ops (lets the caller inject values the builder cannot express, e.g. an
/// unknown symbol index); only panics are observable
pub fn lib_eval_raw(ops: Vec<datalog::Op>, values: &HashMap<u32, datalog::Term>, symbols: &SymbolTable) -> Result<Result<datalog::Term, String>, PanicInfo> {
    guard(|| {
        let mut tmp = TemporarySymbolTable::new(symbols);
        let e = datalog::Expression { ops };
        e.evaluate(values, &mut tmp, &HashMap::new()).map_err(|e| class_of(&e))
    })
}
