//! WireMutator / ByteMutator: structured edits of a wire token
use crate::refcrypto::*;
use crate::tape::Tape;
use crate::wire::*;

/// every mutation kind is a histogram class
pub const BLOCK_KINDS: &[&str] = &[
    "payload_flip",
    "payload_append",
    "payload_truncate",
    "payload_replace_other",
    "payload_reencode_unknown_field",
    "nextkey_other",
    "nextkey_alg_tag",
    "nextkey_sec1_uncompressed",
    "nextkey_flip",
    "sig_flip",
    "sig_truncate",
    "sig_extend",
    "sig_swap",
    "sig_ed_s_plus_l",
    "sig_ecdsa_high_s",
    "sig_der_nonminimal",
    "sig_empty",
    "version_change",
    "version_two",
    "ext_remove",
    "ext_add_attacker",
    "ext_transplant",
    "ext_rekey",
    "ext_sig_flip",
    "ext_sig_high_s",
    "ext_key_sec1_uncompressed",
];

pub const CONTAINER_KINDS: &[&str] = &[
    "swap_blocks",
    "delete_block",
    "truncate_tail_keep_proof",
    "duplicate_block",
    "insert_donor_block",
    "append_donor_tail",
    "donor_proof",
    "proof_other_secret",
    "proof_secret_to_seal",
    "proof_seal_to_secret",
    "proof_seal_flip",
    "proof_seal_high_s",
    "proof_missing",
    "proof_secret_flip",
    "authority_from_donor",
    "ext_on_authority",
    "root_key_id_change",
    "reorder_fields",
    "attacker_block_keep_proof",
    "attacker_block_attacker_proof",
    "holder_forged_third_party_v0",
    "holder_forged_third_party_v1",
    "byte_flip",
    "byte_insert",
    "byte_delete",
    "byte_truncate",
];

fn flip_bit(v: &mut Vec<u8>, t: &mut Tape) -> bool {
    if v.is_empty() {
        return false;
    }
    let i = t.pick(v.len());
    let b = t.pick(8);
    v[i] ^= 1 << b;
    true
}

/// add the group order L to the S half of an ed25519 signature
fn ed_s_plus_l(sig: &[u8]) -> Option<Vec<u8>> {
    if sig.len() != 64 {
        return None;
    }
    const L: [u8; 32] = [
        0xed, 0xd3, 0xf5, 0x5c, 0x1a, 0x63, 0x12, 0x58, 0xd6, 0x9c, 0xf7, 0xa2, 0xde, 0xf9, 0xde, 0x14, 0, 0, 0, 0, 0, 0,
        0, 0, 0, 0, 0, 0, 0, 0, 0, 0x10,
    ];
    let mut out = sig.to_vec();
    let mut carry = 0u16;
    for i in 0..32 {
        let s = out[32 + i] as u16 + L[i] as u16 + carry;
        out[32 + i] = s as u8;
        carry = s >> 8;
    }
    if carry != 0 {
        return None;
    }
    Some(out)
}

pub fn ecdsa_high_s(sig: &[u8]) -> Option<Vec<u8>> {
    let s = p256::ecdsa::Signature::from_der(sig).ok()?;
    let neg = -(*s.s());
    let s2 = p256::ecdsa::Signature::from_scalars(s.r().to_bytes(), neg.to_bytes()).ok()?;
    Some(s2.to_der().as_bytes().to_vec())
}

/// prefix the first INTEGER of a DER ECDSA signature with a superfluous zero
fn der_nonminimal(sig: &[u8]) -> Option<Vec<u8>> {
    if sig.len() < 8 || sig[0] != 0x30 || sig[2] != 0x02 || sig[1] as usize != sig.len() - 2 || sig[1] >= 0x7f {
        return None;
    }
    let rlen = sig[3] as usize;
    let mut out = vec![0x30, sig[1] + 1, 0x02, (rlen + 1) as u8, 0x00];
    out.extend_from_slice(&sig[4..]);
    Some(out)
}

fn sec1_uncompressed(k: &WKey) -> Option<WKey> {
    if k.algorithm != ALG_P256 {
        return None;
    }
    let vk = p256::ecdsa::VerifyingKey::from_sec1_bytes(&k.key).ok()?;
    let unc = vk.to_encoded_point(false).as_bytes().to_vec();
    if unc == k.key {
        return None;
    }
    Some(WKey {
        algorithm: k.algorithm,
        key: unc,
    })
}

/// apply a block-level mutation at block index i
pub fn mutate_block(kind: &str, t0: &WToken, donor: &WToken, i: usize, attacker: &RSecret, tp: &mut Tape) -> Option<Vec<u8>> {
    let mut t = t0.clone();
    let n = t.block_count();
    if i >= n {
        return None;
    }
    match kind {
        "payload_flip" => {
            if !flip_bit(&mut t.block_mut(i).block, tp) {
                return None;
            }
        }
        "payload_append" => t.block_mut(i).block.push(tp.raw() as u8),
        "payload_truncate" => {
            if t.block_mut(i).block.pop().is_none() {
                return None;
            }
        }
        "payload_replace_other" => {
            let j = tp.pick(n + donor.block_count());
            let src = if j < n {
                t0.all_blocks()[j].block.clone()
            } else {
                donor.all_blocks()[j - n].block.clone()
            };
            if src == t.block_mut(i).block {
                return None;
            }
            t.block_mut(i).block = src;
        }
        "payload_reencode_unknown_field" => {
            // semantically equivalent protobuf: append an unknown varint field
            put_varint_field(&mut t.block_mut(i).block, 99, 1);
        }
        "nextkey_other" => {
            let k = attacker.public().to_wire();
            t.block_mut(i).next_key = k;
        }
        "nextkey_alg_tag" => {
            let k = &mut t.block_mut(i).next_key;
            k.algorithm = if k.algorithm == 0 { 1 } else { 0 };
        }
        "nextkey_sec1_uncompressed" => {
            let k = sec1_uncompressed(&t.block_mut(i).next_key)?;
            t.block_mut(i).next_key = k;
        }
        "nextkey_flip" => {
            if !flip_bit(&mut t.block_mut(i).next_key.key, tp) {
                return None;
            }
        }
        "sig_flip" => {
            if !flip_bit(&mut t.block_mut(i).signature, tp) {
                return None;
            }
        }
        "sig_truncate" => {
            if t.block_mut(i).signature.pop().is_none() {
                return None;
            }
        }
        "sig_extend" => t.block_mut(i).signature.push(tp.raw() as u8),
        "sig_swap" => {
            if n < 2 {
                return None;
            }
            let j = (i + 1 + tp.pick(n - 1)) % n;
            let a = t.block_mut(i).signature.clone();
            let b = t.block_mut(j).signature.clone();
            if a == b {
                return None;
            }
            t.block_mut(i).signature = b;
            t.block_mut(j).signature = a;
        }
        "sig_ed_s_plus_l" => {
            let s = ed_s_plus_l(&t.block_mut(i).signature)?;
            t.block_mut(i).signature = s;
        }
        "sig_ecdsa_high_s" => {
            let s = ecdsa_high_s(&t.block_mut(i).signature)?;
            t.block_mut(i).signature = s;
        }
        "sig_der_nonminimal" => {
            let s = der_nonminimal(&t.block_mut(i).signature)?;
            t.block_mut(i).signature = s;
        }
        "sig_empty" => t.block_mut(i).signature.clear(),
        "version_change" => {
            let b = t.block_mut(i);
            b.version = match b.version {
                None | Some(0) => Some(1),
                _ => {
                    if tp.chance(1, 2) {
                        None
                    } else {
                        Some(0)
                    }
                }
            };
        }
        "version_two" => t.block_mut(i).version = Some(2 + tp.pick(3) as u64),
        "ext_remove" => {
            if t.block_mut(i).external.take().is_none() {
                return None;
            }
        }
        "ext_add_attacker" => {
            if t.block_mut(i).external.is_some() || i == 0 {
                return None;
            }
            let prev = t0.all_blocks()[i - 1].signature.clone();
            let b = t.block_mut(i);
            let p = payload_external_v1(&b.block, &prev, 1);
            b.external = Some(WExt {
                signature: attacker.sign(&p),
                public_key: attacker.public().to_wire(),
            });
            if tp.chance(1, 2) {
                b.version = Some(1);
            }
        }
        "ext_transplant" => {
            // take an external signature from another third-party block (same token or donor)
            let mut sources: Vec<WExt> = vec![];
            for (j, b) in t0.all_blocks().iter().enumerate() {
                if j != i {
                    if let Some(e) = &b.external {
                        sources.push(e.clone());
                    }
                }
            }
            for b in donor.all_blocks() {
                if let Some(e) = &b.external {
                    sources.push(e.clone());
                }
            }
            if sources.is_empty() {
                return None;
            }
            let e = sources[tp.pick(sources.len())].clone();
            if t.block_mut(i).external.as_ref() == Some(&e) {
                return None;
            }
            t.block_mut(i).external = Some(e);
        }
        "ext_rekey" => {
            let b = t.block_mut(i);
            let e = b.external.as_mut()?;
            e.public_key = attacker.public().to_wire();
        }
        "ext_sig_flip" => {
            let b = t.block_mut(i);
            let e = b.external.as_mut()?;
            if !flip_bit(&mut e.signature, tp) {
                return None;
            }
        }
        "ext_sig_high_s" => {
            let b = t.block_mut(i);
            let e = b.external.as_mut()?;
            e.signature = ecdsa_high_s(&e.signature)?;
        }
        "ext_key_sec1_uncompressed" => {
            let b = t.block_mut(i);
            let e = b.external.as_mut()?;
            e.public_key = sec1_uncompressed(&e.public_key)?;
        }
        _ => return None,
    }
    Some(t.encode())
}

pub fn mutate_container(kind: &str, t0: &WToken, donor: &WToken, attacker: &RSecret, tp: &mut Tape) -> Option<Vec<u8>> {
    let mut t = t0.clone();
    let n = t.block_count();
    match kind {
        "swap_blocks" => {
            if n < 2 {
                return None;
            }
            let i = tp.pick(n);
            let j = (i + 1 + tp.pick(n - 1)) % n;
            let a = t.block_mut(i).clone();
            let b = t.block_mut(j).clone();
            if a == b {
                return None;
            }
            *t.block_mut(i) = b;
            *t.block_mut(j) = a;
        }
        "delete_block" => {
            if n < 2 {
                return None;
            }
            let i = tp.pick(n);
            if i == 0 {
                t.authority = t.blocks.remove(0);
            } else {
                t.blocks.remove(i - 1);
            }
        }
        "truncate_tail_keep_proof" => {
            if n < 2 {
                return None;
            }
            let k = tp.range(1, n - 1);
            t.blocks.truncate(n - 1 - k);
        }
        "duplicate_block" => {
            let i = tp.pick(n);
            let b = t0.all_blocks()[i].clone();
            let pos = tp.pick(t.blocks.len() + 1);
            t.blocks.insert(pos, b);
        }
        "insert_donor_block" => {
            let j = tp.pick(donor.block_count());
            let b = donor.all_blocks()[j].clone();
            let pos = tp.pick(t.blocks.len() + 1);
            t.blocks.insert(pos, b);
        }
        "append_donor_tail" => {
            if donor.blocks.is_empty() {
                return None;
            }
            let k = tp.pick(donor.blocks.len());
            t.blocks.extend(donor.blocks[k..].iter().cloned());
            t.proof = donor.proof.clone();
        }
        "donor_proof" => {
            if t.proof == donor.proof {
                return None;
            }
            t.proof = donor.proof.clone();
        }
        "proof_other_secret" => {
            t.proof = WProof::Secret(attacker.bytes());
        }
        "proof_secret_to_seal" => match &t.proof {
            WProof::Secret(s) => t.proof = WProof::Seal(s.clone()),
            _ => return None,
        },
        "proof_seal_to_secret" => match &t.proof {
            WProof::Seal(s) => {
                let mut b = s.clone();
                b.resize(32, 7);
                t.proof = WProof::Secret(b)
            }
            _ => return None,
        },
        "proof_seal_flip" => match &mut t.proof {
            WProof::Seal(s) => {
                if !flip_bit(s, tp) {
                    return None;
                }
            }
            _ => return None,
        },
        "proof_seal_high_s" => match &mut t.proof {
            WProof::Seal(s) => {
                *s = ecdsa_high_s(s)?;
            }
            _ => return None,
        },
        "proof_secret_flip" => match &mut t.proof {
            WProof::Secret(s) => {
                if !flip_bit(s, tp) {
                    return None;
                }
            }
            _ => return None,
        },
        "proof_missing" => t.proof = WProof::Missing,
        "authority_from_donor" => {
            if t.authority == donor.authority {
                return None;
            }
            t.authority = donor.authority.clone();
        }
        "ext_on_authority" => {
            let p = payload_external_v1(&t.authority.block, &t.authority.signature, 1);
            t.authority.external = Some(WExt {
                signature: attacker.sign(&p),
                public_key: attacker.public().to_wire(),
            });
        }
        "root_key_id_change" => {
            t.root_key_id = match t.root_key_id {
                None => Some(tp.raw() as u64),
                Some(x) => {
                    if tp.chance(1, 2) {
                        None
                    } else {
                        Some(x + 1)
                    }
                }
            };
        }
        "reorder_fields" => return Some(t.encode_reordered()),
        "holder_forged_third_party_v0" | "holder_forged_third_party_v1" => {
            // the legitimate holder of an unsealed token (who knows the proof secret) appends a
            // correctly chained block that claims to come from a third party: the external
            // signature is made up (or made by somebody else), so the attribution is forged
            let WProof::Secret(secret) = &t0.proof else { return None };
            let lastb = t0.all_blocks().last().unwrap().clone();
            let holder = RSecret::from_bytes(lastb.next_key.algorithm, secret).ok()?;
            let next = attacker.clone();
            let payload = t0.authority.block.clone();
            // the victim: the key of a third-party block of the token or of the donor, else the
            // root of the donor
            let victim = t0
                .all_blocks()
                .iter()
                .chain(donor.all_blocks().iter())
                .filter_map(|b| b.external.as_ref().map(|e| e.public_key.clone()))
                .next()
                .unwrap_or_else(|| donor.authority.next_key.clone());
            let ext_sig = match tp.pick(3) {
                0 => vec![0x42u8; 64],
                1 => attacker.sign(&payload_external_v1(&payload, &lastb.signature, 1)),
                _ => {
                    // legacy layout, signed by the attacker
                    let mut m = payload.clone();
                    m.extend_from_slice(&(lastb.next_key.algorithm as i32).to_le_bytes());
                    m.extend_from_slice(&lastb.next_key.key);
                    attacker.sign(&m)
                }
            };
            let v1 = kind.ends_with("v1");
            let to_sign = if v1 {
                payload_v1(&payload, &next.public(), Some(&lastb.signature), Some(&ext_sig), 1)
            } else {
                payload_v0(&payload, &next.public(), Some(&ext_sig))
            };
            t.blocks.push(WBlock {
                block: payload,
                next_key: next.public().to_wire(),
                signature: holder.sign(&to_sign),
                external: Some(WExt {
                    signature: ext_sig,
                    public_key: victim,
                }),
                version: if v1 { Some(1) } else { None },
            });
            t.proof = WProof::Secret(next.bytes());
        }
        "attacker_block_keep_proof" | "attacker_block_attacker_proof" => {
            // graft: a new block signed by an attacker key (not by the token's next secret)
            let last = t0.all_blocks().last().unwrap().signature.clone();
            let next = attacker.clone();
            let payload = t0.authority.block.clone();
            let v1 = tp.chance(1, 2);
            let to_sign = if v1 {
                payload_v1(&payload, &next.public(), Some(&last), None, 1)
            } else {
                payload_v0(&payload, &next.public(), None)
            };
            t.blocks.push(WBlock {
                block: payload,
                next_key: next.public().to_wire(),
                signature: attacker.sign(&to_sign),
                external: None,
                version: if v1 { Some(1) } else { None },
            });
            if kind == "attacker_block_attacker_proof" {
                if matches!(t.proof, WProof::Seal(_)) && tp.chance(1, 2) {
                    let lastb = t.blocks.last().unwrap().clone();
                    let p = payload_seal(&lastb.block, &next.public(), &lastb.signature);
                    t.proof = WProof::Seal(attacker.sign(&p));
                } else {
                    t.proof = WProof::Secret(attacker.bytes());
                }
            }
        }
        "byte_flip" => {
            let mut b = t.encode();
            let k = tp.range(1, 3);
            for _ in 0..k {
                flip_bit(&mut b, tp);
            }
            return Some(b);
        }
        "byte_insert" => {
            let mut b = t.encode();
            let i = tp.pick(b.len() + 1);
            b.insert(i, tp.raw() as u8);
            return Some(b);
        }
        "byte_delete" => {
            let mut b = t.encode();
            if b.is_empty() {
                return None;
            }
            let i = tp.pick(b.len());
            b.remove(i);
            return Some(b);
        }
        "byte_truncate" => {
            let mut b = t.encode();
            let k = tp.pick(b.len());
            b.truncate(k);
            return Some(b);
        }
        _ => return None,
    }
    Some(t.encode())
}
