//! schema-valid but adversarial protobuf messages
use crate::tape::Tape;
use biscuit_auth::format::schema::{self, *};

pub struct Adv<'a> {
    pub t: &'a mut Tape,
    /// probability (out of 16) that a choice is taken from the "wild" alternatives
    pub wild: u32,
}

const SYMS: &[u64] = &[0, 1, 2, 5, 27, 28, 100, 1023, 1024, 1025, 1026, 1030, 5000, u32::MAX as u64, u64::MAX];

impl<'a> Adv<'a> {
    fn w(&mut self) -> bool {
        self.t.chance(self.wild, 16)
    }
    pub fn sym(&mut self) -> u64 {
        if self.w() {
            *self.t.choose(SYMS)
        } else {
            *self.t.choose(&[0u64, 1, 2, 3, 4, 1024, 1025, 1026])
        }
    }
    pub fn int(&mut self) -> i64 {
        *self.t.choose(&[0i64, 1, -1, 2, 7, i64::MAX, i64::MIN])
    }
    pub fn term(&mut self, depth: usize, allow_var: bool) -> TermV2 {
        use term_v2::Content as C;
        let n = if depth == 0 { 8 } else { 12 };
        let content = match self.t.pick(n) {
            0 => Some(C::Integer(self.int())),
            1 => Some(C::String(self.sym())),
            2 => Some(C::Bool(self.t.chance(1, 2))),
            3 => Some(C::Date(if self.w() { *self.t.choose(&[u64::MAX, 253402300800, 1 << 62]) } else { 1000 })),
            4 => Some(C::Bytes(self.t.bytes(4))),
            5 => {
                if allow_var || self.w() {
                    Some(C::Variable(if self.w() { *self.t.choose(&[u32::MAX, 99999, 1024]) } else { 1024 + self.t.pick(3) as u32 }))
                } else {
                    Some(C::Integer(1))
                }
            }
            6 => Some(C::Null(Empty {})),
            7 => {
                if self.w() {
                    None
                } else {
                    Some(C::Integer(3))
                }
            }
            8 => {
                let k = self.t.range(0, 3);
                let homogeneous = !self.w();
                let first = self.term(depth - 1, false);
                let mut set = vec![];
                for i in 0..k {
                    set.push(if homogeneous && i > 0 {
                        match &first.content {
                            Some(C::Integer(_)) => TermV2 { content: Some(C::Integer(self.int())) },
                            Some(C::String(_)) => TermV2 { content: Some(C::String(self.sym())) },
                            _ => first.clone(),
                        }
                    } else if i == 0 {
                        first.clone()
                    } else {
                        self.term(depth - 1, true)
                    });
                }
                Some(C::Set(TermSet { set }))
            }
            9 => {
                let k = self.t.range(0, 3);
                Some(C::Array(Array {
                    array: (0..k).map(|_| self.term(depth - 1, false)).collect(),
                }))
            }
            10 => {
                let k = self.t.range(0, 3);
                Some(C::Map(Map {
                    entries: (0..k)
                        .map(|_| MapEntry {
                            key: MapKey {
                                content: match self.t.pick(3) {
                                    0 => Some(map_key::Content::Integer(self.int())),
                                    1 => Some(map_key::Content::String(self.sym())),
                                    _ => {
                                        if self.w() {
                                            None
                                        } else {
                                            Some(map_key::Content::Integer(1))
                                        }
                                    }
                                },
                            },
                            value: self.term(depth - 1, false),
                        })
                        .collect(),
                }))
            }
            _ => {
                // deep nesting
                let mut t = TermV2 { content: Some(C::Integer(1)) };
                let d = if self.w() { self.t.range(10, 60) } else { 2 };
                for _ in 0..d {
                    t = TermV2 {
                        content: Some(C::Array(Array { array: vec![t] })),
                    };
                }
                t.content
            }
        };
        TermV2 { content }
    }
    pub fn pred(&mut self, allow_var: bool) -> PredicateV2 {
        let k = self.t.weighted(&[1, 5, 3, 1]);
        PredicateV2 {
            name: self.sym(),
            terms: (0..k).map(|_| self.term(2, allow_var)).collect(),
        }
    }
    pub fn op(&mut self, depth: usize) -> Op {
        use op::Content as C;
        let content = match self.t.weighted(&[5, 3, 5, if depth > 0 { 2 } else { 0 }, 1]) {
            0 => Some(C::Value(self.term(2, true))),
            1 => {
                let kind = if self.w() { *self.t.choose(&[-1i32, 5, 99, i32::MAX]) } else { self.t.pick(5) as i32 };
                Some(C::Unary(OpUnary {
                    kind,
                    ffi_name: if kind == 4 || self.w() { Some(self.sym()) } else { None },
                }))
            }
            2 => {
                let kind = if self.w() { *self.t.choose(&[-1i32, 29, 100, i32::MIN]) } else { self.t.pick(29) as i32 };
                Some(C::Binary(OpBinary {
                    kind,
                    ffi_name: if kind == 28 || self.w() { Some(self.sym()) } else { None },
                }))
            }
            3 => {
                let np = self.t.weighted(&[3, 5, 1]);
                let n = self.t.range(0, 4);
                Some(C::Closure(OpClosure {
                    params: (0..np).map(|_| if self.w() { u32::MAX } else { 1024 + self.t.pick(4) as u32 }).collect(),
                    ops: (0..n).map(|_| self.op(depth - 1)).collect(),
                }))
            }
            _ => None,
        };
        Op { content }
    }
    pub fn expr(&mut self) -> ExpressionV2 {
        let n = self.t.range(0, 6);
        ExpressionV2 {
            ops: (0..n).map(|_| self.op(2)).collect(),
        }
    }
    pub fn scope(&mut self) -> Scope {
        use scope::Content as C;
        Scope {
            content: match self.t.pick(4) {
                0 => Some(C::ScopeType(if self.w() { *self.t.choose(&[2i32, -1, 99]) } else { self.t.pick(2) as i32 })),
                1 => Some(C::PublicKey(if self.w() { *self.t.choose(&[-1i64, 99, i64::MAX, i64::MIN]) } else { self.t.pick(2) as i64 })),
                2 => Some(C::ScopeType(0)),
                _ => {
                    if self.w() {
                        None
                    } else {
                        Some(C::ScopeType(1))
                    }
                }
            },
        }
    }
    pub fn rule(&mut self) -> RuleV2 {
        let nb = self.t.weighted(&[1, 5, 3]);
        let ne = self.t.weighted(&[4, 4, 2]);
        let ns = self.t.weighted(&[6, 2, 1]);
        RuleV2 {
            head: self.pred(true),
            body: (0..nb).map(|_| self.pred(true)).collect(),
            expressions: (0..ne).map(|_| self.expr()).collect(),
            scope: (0..ns).map(|_| self.scope()).collect(),
        }
    }
    pub fn check(&mut self) -> CheckV2 {
        let n = self.t.weighted(&[if self.wild > 0 { 1 } else { 0 }, 6, 2]);
        CheckV2 {
            queries: (0..n).map(|_| self.rule()).collect(),
            kind: match self.t.pick(5) {
                0 => None,
                1 => Some(0),
                2 => Some(1),
                3 => Some(2),
                _ => {
                    if self.w() {
                        Some(*self.t.choose(&[3i32, -1, 77]))
                    } else {
                        None
                    }
                }
            },
        }
    }
    pub fn key(&mut self) -> schema::PublicKey {
        let good = crate::keys::KeyPlan {
            alg: if self.t.chance(1, 3) { crate::keys::Alg::P256 } else { crate::keys::Alg::Ed },
            seed: 0x900 + self.t.pick(3) as u64,
        }
        .public()
        .to_proto();
        if !self.w() {
            return good;
        }
        match self.t.pick(4) {
            0 => schema::PublicKey {
                algorithm: *self.t.choose(&[2i32, -1, 99]),
                key: good.key,
            },
            1 => schema::PublicKey {
                algorithm: good.algorithm ^ 1,
                key: good.key,
            },
            2 => schema::PublicKey {
                algorithm: good.algorithm,
                key: self.t.bytes(40),
            },
            _ => schema::PublicKey {
                algorithm: good.algorithm,
                key: vec![],
            },
        }
    }
    pub fn symbols(&mut self) -> Vec<String> {
        let n = self.t.range(0, 5);
        (0..n)
            .map(|i| {
                if self.w() {
                    (*self.t.choose(&["read", "query", "dup", "dup", "", "\u{0}", "s0"])).to_string()
                } else {
                    format!("s{i}")
                }
            })
            .collect()
    }
    pub fn block(&mut self) -> Block {
        let nf = self.t.range(0, 3);
        let nr = self.t.range(0, 2);
        let nc = self.t.range(0, 2);
        let ns = self.t.weighted(&[5, 2, 1]);
        let nk = self.t.weighted(&[4, 2, 1]);
        Block {
            symbols: self.symbols(),
            context: if self.t.chance(1, 4) { Some("ctx".into()) } else { None },
            version: if self.w() {
                *self.t.choose(&[None, Some(0), Some(1), Some(2), Some(7), Some(8), Some(u32::MAX)])
            } else {
                Some(3 + self.t.pick(4) as u32)
            },
            facts_v2: (0..nf).map(|_| FactV2 { predicate: self.pred(self.wild > 8) }).collect(),
            rules_v2: (0..nr).map(|_| self.rule()).collect(),
            checks_v2: (0..nc).map(|_| self.check()).collect(),
            scope: (0..ns).map(|_| self.scope()).collect(),
            public_keys: (0..nk).map(|_| self.key()).collect(),
        }
    }
    pub fn policy(&mut self) -> schema::Policy {
        let n = self.t.weighted(&[1, 6, 2]);
        schema::Policy {
            queries: (0..n).map(|_| self.rule()).collect(),
            kind: if self.w() { *self.t.choose(&[2i32, -1]) } else { self.t.pick(2) as i32 },
        }
    }
    pub fn snapshot_block(&mut self) -> SnapshotBlock {
        let b = self.block();
        SnapshotBlock {
            context: b.context,
            version: b.version,
            facts_v2: b.facts_v2,
            rules_v2: b.rules_v2,
            checks_v2: b.checks_v2,
            scope: b.scope,
            external_key: if self.t.chance(1, 3) { Some(self.key()) } else { None },
        }
    }
    pub fn origin(&mut self) -> Origin {
        Origin {
            content: match self.t.pick(4) {
                0 => Some(origin::Content::Authorizer(Empty {})),
                1 => Some(origin::Content::Origin(self.t.pick(3) as u32)),
                2 => Some(origin::Content::Origin(if self.w() { u32::MAX } else { 0 })),
                _ => {
                    if self.w() {
                        None
                    } else {
                        Some(origin::Content::Origin(1))
                    }
                }
            },
        }
    }
    pub fn snapshot(&mut self) -> AuthorizerSnapshot {
        let nb = self.t.weighted(&[3, 3, 2]);
        let np = self.t.range(0, 2);
        let ng = self.t.range(0, 2);
        let big = |s: &mut Self| if s.w() { *s.t.choose(&[0u64, 1, u64::MAX, 1 << 63]) } else { 1000 };
        AuthorizerSnapshot {
            limits: RunLimits {
                max_facts: big(self),
                max_iterations: big(self),
                max_time: if self.w() { *self.t.choose(&[0u64, u64::MAX]) } else { 1_000_000_000 },
            },
            execution_time: if self.w() { *self.t.choose(&[1u64, u64::MAX, 2_000_000_000]) } else { 0 },
            world: AuthorizerWorld {
                version: if self.w() { *self.t.choose(&[None, Some(0), Some(2), Some(9)]) } else { Some(3 + self.t.pick(4) as u32) },
                symbols: self.symbols(),
                public_keys: {
                    let n = self.t.range(0, 2);
                    (0..n).map(|_| self.key()).collect()
                },
                blocks: (0..nb).map(|_| self.snapshot_block()).collect(),
                authorizer_block: {
                    let mut b = self.snapshot_block();
                    if !self.w() {
                        b.external_key = None;
                    }
                    b
                },
                authorizer_policies: (0..np).map(|_| self.policy()).collect(),
                generated_facts: (0..ng)
                    .map(|_| {
                        let no = self.t.range(0, 2);
                        let nf = self.t.range(0, 2);
                        GeneratedFacts {
                            origins: (0..no).map(|_| self.origin()).collect(),
                            facts: (0..nf).map(|_| FactV2 { predicate: self.pred(false) }).collect(),
                        }
                    })
                    .collect(),
                iterations: big(self),
            },
        }
    }
    pub fn policies(&mut self) -> schema::AuthorizerPolicies {
        let b = self.block();
        let np = self.t.range(0, 2);
        schema::AuthorizerPolicies {
            symbols: b.symbols,
            version: b.version,
            facts: b.facts_v2,
            rules: b.rules_v2,
            checks: b.checks_v2,
            policies: (0..np).map(|_| self.policy()).collect(),
        }
    }
}
