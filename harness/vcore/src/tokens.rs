//! token plans and their interpretation against the real API
use crate::ast::*;
use crate::gen::*;
use crate::keys::*;
use crate::tape::Tape;
use biscuit_auth::{Biscuit, KeyPair, PublicKey};
use serde::{Deserialize, Serialize};

#[derive(Clone, Debug, PartialEq, Eq, Hash, Serialize, Deserialize)]
pub enum Step {
    First { block: Block, next: KeyPlan },
    Third { block: Block, ext: usize, next: KeyPlan },
}

impl Step {
    pub fn block(&self) -> &Block {
        match self {
            Step::First { block, .. } | Step::Third { block, .. } => block,
        }
    }
    pub fn next(&self) -> &KeyPlan {
        match self {
            Step::First { next, .. } | Step::Third { next, .. } => next,
        }
    }
    pub fn is_third(&self) -> bool {
        matches!(self, Step::Third { .. })
    }
}

#[derive(Clone, Debug, PartialEq, Eq, Hash, Serialize, Deserialize)]
pub struct TokenPlan {
    /// key pool: scopes and external keys index into it
    pub keys: Vec<KeyPlan>,
    pub root: KeyPlan,
    pub root_key_id: Option<u32>,
    pub authority: Block,
    pub first_next: KeyPlan,
    pub steps: Vec<Step>,
    pub seal: bool,
}

impl TokenPlan {
    pub fn publics(&self) -> Vec<PublicKey> {
        publics(&self.keys)
    }
    pub fn block_count(&self) -> usize {
        1 + self.steps.len()
    }
    /// the external key index of block i (None for first-party)
    pub fn ext_of(&self, i: usize) -> Option<usize> {
        if i == 0 {
            None
        } else {
            match &self.steps[i - 1] {
                Step::Third { ext, .. } => Some(*ext),
                _ => None,
            }
        }
    }
    pub fn block(&self, i: usize) -> &Block {
        if i == 0 {
            &self.authority
        } else {
            self.steps[i - 1].block()
        }
    }
    pub fn shape(&self) -> String {
        let mut s = format!("{}", self.root.alg.name());
        s.push('/');
        s.push_str(self.first_next.alg.name());
        for st in &self.steps {
            s.push_str(match st {
                Step::First { .. } => ">F:",
                Step::Third { .. } => ">T:",
            });
            s.push_str(st.next().alg.name());
            if let Step::Third { ext, .. } = st {
                s.push_str(&format!("(ext {})", self.keys[*ext % self.keys.len()].alg.name()));
            }
        }
        if self.seal {
            s.push_str(">seal");
        }
        s
    }
}

/// keys are made pairwise distinct by construction: the low byte of the seed is a position tag
/// (a reused next key would make blocks legitimately interchangeable - a misuse of the API that
/// the library's own `append` never commits since it draws a fresh key per block)
pub fn gen_key(t: &mut Tape, tag: u8) -> KeyPlan {
    KeyPlan {
        alg: if t.chance(1, 3) { Alg::P256 } else { Alg::Ed },
        seed: (t.u64() << 8) | tag as u64,
    }
}

pub fn gen_token_plan(t: &mut Tape, cfg: &GenCfg, max_steps: usize) -> TokenPlan {
    gen_token_plan_tagged(t, cfg, max_steps, 0)
}

/// `salt` separates the key spaces of two plans generated for the same case (0, 64, 128)
pub fn gen_token_plan_tagged(t: &mut Tape, cfg: &GenCfg, max_steps: usize, salt: u8) -> TokenPlan {
    let mut keys = gen_keys(t, cfg.n_keys);
    for (i, k) in keys.iter_mut().enumerate() {
        k.seed = (k.seed << 8) | (salt + 32 + i as u8) as u64;
    }
    let root = gen_key(t, salt);
    let root_key_id = if t.chance(1, 4) { Some(t.raw() as u32) } else { None };
    let first_next = gen_key(t, salt + 1);
    let authority = gen_block(t, cfg);
    let n = t.weighted(&[3, 4, 3, 2, 1, 1][..(max_steps + 1).min(6)]);
    let mut steps = vec![];
    for i in 0..n {
        let block = gen_block(t, cfg);
        let next = gen_key(t, salt + 2 + i as u8);
        if t.chance(1, 3) {
            steps.push(Step::Third {
                block,
                ext: t.pick(cfg.n_keys.max(1)),
                next,
            });
        } else {
            steps.push(Step::First { block, next });
        }
    }
    TokenPlan {
        keys,
        root,
        root_key_id,
        authority,
        first_next,
        steps,
        seal: t.chance(1, 5),
    }
}

pub type BErr = biscuit_auth::error::Token;

/// build the authority token
pub fn build_authority(plan: &TokenPlan) -> Result<Biscuit, BErr> {
    let pubs = plan.publics();
    let mut bb = plan.authority.to_biscuit_builder(&pubs)?;
    if let Some(id) = plan.root_key_id {
        bb = bb.root_key_id(id);
    }
    bb.build_with_key_pair(
        &plan.root.keypair(),
        biscuit_auth::datalog::SymbolTable::default(),
        &plan.first_next.keypair(),
    )
}

pub fn apply_step(token: &Biscuit, plan: &TokenPlan, step: &Step) -> Result<Biscuit, BErr> {
    let pubs = plan.publics();
    match step {
        Step::First { block, next } => token.append_with_keypair(&next.keypair(), block.to_builder(&pubs)?),
        Step::Third { block, ext, next } => {
            let ext_kp: KeyPair = plan.keys[*ext % plan.keys.len()].keypair();
            let req = token.third_party_request()?;
            let tp = req.create_block(&ext_kp.private(), block.to_builder(&pubs)?)?;
            token.append_third_party_with_keypair(ext_kp.public(), tp, next.keypair())
        }
    }
}

/// build the whole history; returns every intermediate token (index = number of blocks - 1) and
/// the final token (sealed if the plan says so)
pub fn build_history(plan: &TokenPlan) -> Result<(Vec<Biscuit>, Biscuit), BErr> {
    let mut toks = vec![build_authority(plan)?];
    for st in &plan.steps {
        let next = apply_step(toks.last().unwrap(), plan, st)?;
        toks.push(next);
    }
    let fin = if plan.seal {
        toks.last().unwrap().seal()?
    } else {
        toks.last().unwrap().clone()
    };
    Ok((toks, fin))
}

pub fn build_token(plan: &TokenPlan) -> Result<Biscuit, BErr> {
    build_history(plan).map(|(_, f)| f)
}
