//! running the real authorizer on plans, with a normalised outcome
use crate::ast::*;
use crate::util::guard;
use biscuit_auth::error::{FailedCheck, Logic, MatchedPolicy, Token};
use biscuit_auth::{Authorizer, AuthorizerLimits, Biscuit, PublicKey};
use serde::{Deserialize, Serialize};
use std::time::Duration;

/// origin of a failed check: None = authorizer
pub type CheckId = (Option<u32>, u32);

#[derive(Clone, Debug, PartialEq, Eq, Hash, PartialOrd, Ord, Serialize, Deserialize)]
pub enum Outcome {
    Allow(usize),
    /// matched policy (allow?, index) if any, failed checks in reporting order
    Refused {
        policy: Option<(bool, usize)>,
        failed: Vec<CheckId>,
    },
    /// expression evaluation error (class name)
    ExecError(String),
    RunLimit(String),
    /// authorizer construction refused (e.g. invalid block rule, unknown key)
    BuildError(String),
    OtherError(String),
    Panic(String),
}

impl Outcome {
    pub fn is_allow(&self) -> bool {
        matches!(self, Outcome::Allow(_))
    }
    pub fn is_logic(&self) -> bool {
        matches!(self, Outcome::Allow(_) | Outcome::Refused { .. })
    }
    pub fn failed(&self) -> Vec<CheckId> {
        match self {
            Outcome::Refused { failed, .. } => failed.clone(),
            _ => vec![],
        }
    }
}

pub fn big_limits() -> AuthorizerLimits {
    AuthorizerLimits {
        max_facts: 100_000,
        max_iterations: 10_000,
        max_time: Duration::from_secs(600),
    }
}

pub fn expr_error_class(e: &biscuit_auth::error::Expression) -> String {
    use biscuit_auth::error::Expression as E;
    match e {
        E::UnknownSymbol(_) => "UnknownSymbol",
        E::UnknownVariable(_) => "UnknownVariable",
        E::InvalidType => "InvalidType",
        E::Overflow => "Overflow",
        E::DivideByZero => "DivideByZero",
        E::InvalidStack => "InvalidStack",
        E::ShadowedVariable => "ShadowedVariable",
        E::UndefinedExtern(_) => "UndefinedExtern",
        E::ExternEvalError(_, _) => "ExternEvalError",
    }
    .to_string()
}

pub fn normalize(r: Result<usize, Token>) -> Outcome {
    match r {
        Ok(i) => Outcome::Allow(i),
        Err(Token::FailedLogic(Logic::Unauthorized { policy, checks })) => Outcome::Refused {
            policy: Some(match policy {
                MatchedPolicy::Allow(i) => (true, i),
                MatchedPolicy::Deny(i) => (false, i),
            }),
            failed: failed_ids(&checks),
        },
        Err(Token::FailedLogic(Logic::NoMatchingPolicy { checks })) => Outcome::Refused {
            policy: None,
            failed: failed_ids(&checks),
        },
        Err(Token::FailedLogic(l)) => Outcome::BuildError(format!("{l:?}")),
        Err(Token::Execution(e)) => Outcome::ExecError(expr_error_class(&e)),
        Err(Token::RunLimit(l)) => Outcome::RunLimit(format!("{l:?}")),
        Err(e) => Outcome::OtherError(format!("{e:?}")),
    }
}

pub fn failed_ids(checks: &[FailedCheck]) -> Vec<CheckId> {
    checks
        .iter()
        .map(|c| match c {
            FailedCheck::Block(b) => (Some(b.block_id), b.check_id),
            FailedCheck::Authorizer(a) => (None, a.check_id),
        })
        .collect()
}

/// build the authorizer for (token, ast); Err = normalised build failure
pub fn build_authorizer(
    token: Option<&Biscuit>,
    ast: &AuthorizerAst,
    keys: &[PublicKey],
    limits: AuthorizerLimits,
) -> Result<Authorizer, Outcome> {
    let r = guard(|| {
        let ab = ast.to_builder(&keys.to_vec()).map_err(|e| Outcome::BuildError(format!("{e:?}")))?;
        let ab = ab.limits(limits);
        match token {
            Some(t) => ab.build(t),
            None => ab.build_unauthenticated(),
        }
        .map_err(|e| match e {
            Token::FailedLogic(l) => Outcome::BuildError(format!("{l:?}")),
            e => Outcome::BuildError(format!("{e:?}")),
        })
    });
    match r {
        Ok(r) => r,
        Err(p) => Err(Outcome::Panic(format!("{} at {}:{}", p.message, p.site(), p.line))),
    }
}

pub fn authorize(token: Option<&Biscuit>, ast: &AuthorizerAst, keys: &[PublicKey]) -> Outcome {
    authorize_with(token, ast, keys, big_limits())
}

pub fn authorize_with(token: Option<&Biscuit>, ast: &AuthorizerAst, keys: &[PublicKey], limits: AuthorizerLimits) -> Outcome {
    let mut a = match build_authorizer(token, ast, keys, limits) {
        Ok(a) => a,
        Err(o) => return o,
    };
    match guard(|| a.authorize()) {
        Ok(r) => normalize(r),
        Err(p) => Outcome::Panic(format!("{} at {}:{}", p.message, p.site(), p.line)),
    }
}

/// facts per origin, read structurally from the authorizer's snapshot (origin usize::MAX =
/// authorizer); printing is not used because set / map element order depends on symbol interning
pub fn world_of(a: &Authorizer) -> Result<std::collections::BTreeMap<std::collections::BTreeSet<usize>, std::collections::BTreeSet<Pred>>, String> {
    use biscuit_auth::builder::Convert;
    use biscuit_auth::format::schema::origin::Content;
    let snap = match guard(|| a.snapshot()) {
        Ok(Ok(s)) => s,
        Ok(Err(e)) => return Err(format!("snapshot error: {e:?}")),
        Err(p) => return Err(format!("snapshot panic: {} at {}:{}", p.message, p.site(), p.line)),
    };
    let mut st = biscuit_auth::datalog::SymbolTable::default();
    for s in &snap.world.symbols {
        st.insert(s);
    }
    let mut out = std::collections::BTreeMap::new();
    for gf in &snap.world.generated_facts {
        let mut origin = std::collections::BTreeSet::new();
        for o in &gf.origins {
            match o.content {
                Some(Content::Authorizer(_)) => {
                    origin.insert(usize::MAX);
                }
                Some(Content::Origin(i)) => {
                    origin.insert(i as usize);
                }
                None => return Err("empty origin".into()),
            }
        }
        let entry: &mut std::collections::BTreeSet<Pred> = out.entry(origin).or_default();
        for f in &gf.facts {
            let df = biscuit_auth::format::convert::v2::proto_fact_to_token_fact(f).map_err(|e| format!("{e:?}"))?;
            let bf = biscuit_auth::builder::Fact::convert_from(&df, &st).map_err(|e| format!("{e:?}"))?;
            entry.insert(Pred::from_b(&bf.predicate));
        }
    }
    out.retain(|_, v| !v.is_empty());
    Ok(out)
}
