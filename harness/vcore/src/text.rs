//! source text of AST items, `{name}` parameters included (the library cannot print an
//! expression that still holds a parameter). Ground leaves are printed by the library's `Term`
//! display; the structure of expressions, rules, checks and policies is printed here.
use crate::ast::*;
use biscuit_auth::PublicKey;

pub fn term(t: &Term) -> String {
    t.to_b().to_string()
}

pub fn pred(p: &Pred) -> String {
    format!("{}({})", p.name, p.terms.iter().map(term).collect::<Vec<_>>().join(", "))
}

fn un(op: &Un, x: String) -> String {
    match op {
        Un::Negate => format!("!{x}"),
        Un::Parens => format!("({x})"),
        Un::Length => format!("{x}.length()"),
        Un::TypeOf => format!("{x}.type()"),
        Un::Ffi(n) => format!("{x}.extern::{n}()"),
    }
}

fn bin(op: &Bin, l: String, r: String) -> String {
    match op {
        Bin::LessThan => format!("{l} < {r}"),
        Bin::GreaterThan => format!("{l} > {r}"),
        Bin::LessOrEqual => format!("{l} <= {r}"),
        Bin::GreaterOrEqual => format!("{l} >= {r}"),
        Bin::Equal => format!("{l} === {r}"),
        Bin::HeterogeneousEqual => format!("{l} == {r}"),
        Bin::NotEqual => format!("{l} !== {r}"),
        Bin::HeterogeneousNotEqual => format!("{l} != {r}"),
        Bin::Contains => format!("{l}.contains({r})"),
        Bin::Prefix => format!("{l}.starts_with({r})"),
        Bin::Suffix => format!("{l}.ends_with({r})"),
        Bin::Regex => format!("{l}.matches({r})"),
        Bin::Add => format!("{l} + {r}"),
        Bin::Sub => format!("{l} - {r}"),
        Bin::Mul => format!("{l} * {r}"),
        Bin::Div => format!("{l} / {r}"),
        Bin::And => format!("{l} &&! {r}"),
        Bin::Or => format!("{l} ||! {r}"),
        Bin::Intersection => format!("{l}.intersection({r})"),
        Bin::Union => format!("{l}.union({r})"),
        Bin::BitwiseAnd => format!("{l} & {r}"),
        Bin::BitwiseOr => format!("{l} | {r}"),
        Bin::BitwiseXor => format!("{l} ^ {r}"),
        Bin::LazyAnd => format!("{l} && {r}"),
        Bin::LazyOr => format!("{l} || {r}"),
        Bin::All => format!("{l}.all({r})"),
        Bin::Any => format!("{l}.any({r})"),
        Bin::Get => format!("{l}.get({r})"),
        Bin::Ffi(n) => format!("{l}.extern::{n}({r})"),
    }
}

/// None for a malformed operation sequence
pub fn ops(ops: &[Op]) -> Option<String> {
    let mut stack: Vec<String> = vec![];
    for op in ops {
        match op {
            Op::Value(t) => stack.push(term(t)),
            Op::Unary(u) => {
                let x = stack.pop()?;
                stack.push(un(u, x));
            }
            Op::Binary(b) => {
                let r = stack.pop()?;
                let l = stack.pop()?;
                stack.push(bin(b, l, r));
            }
            Op::Closure(params, body) => {
                let b = self::ops(body)?;
                if params.is_empty() {
                    stack.push(b);
                } else {
                    stack.push(format!("{} -> {}", params.iter().map(|p| format!("${p}")).collect::<Vec<_>>().join(", "), b));
                }
            }
        }
    }
    if stack.len() == 1 {
        stack.pop()
    } else {
        None
    }
}

pub fn scope(s: &Scope, keys: &[PublicKey]) -> String {
    match s {
        Scope::Authority => "authority".into(),
        Scope::Previous => "previous".into(),
        Scope::Key(i) => keys[*i % keys.len()].to_string(),
        Scope::Param(n) => format!("{{{n}}}"),
    }
}

pub fn body(r: &Rule, keys: &[PublicKey]) -> Option<String> {
    let mut parts: Vec<String> = r.body.iter().map(pred).collect();
    for e in &r.exprs {
        parts.push(ops(&e.ops)?);
    }
    let mut s = parts.join(", ");
    if !r.scopes.is_empty() {
        s.push_str(" trusting ");
        s.push_str(&r.scopes.iter().map(|x| scope(x, keys)).collect::<Vec<_>>().join(", "));
    }
    Some(s)
}

pub fn rule(r: &Rule, keys: &[PublicKey]) -> Option<String> {
    Some(format!("{} <- {}", pred(&r.head), body(r, keys)?))
}

pub fn check(c: &Check, keys: &[PublicKey]) -> Option<String> {
    let kw = match c.kind {
        CheckKind::One => "check if",
        CheckKind::All => "check all",
        CheckKind::Reject => "reject if",
    };
    let qs: Option<Vec<String>> = c.queries.iter().map(|q| body(q, keys)).collect();
    Some(format!("{kw} {}", qs?.join(" or ")))
}

pub fn policy(p: &Policy, keys: &[PublicKey]) -> Option<String> {
    let kw = if p.allow { "allow if" } else { "deny if" };
    let qs: Option<Vec<String>> = p.queries.iter().map(|q| body(q, keys)).collect();
    Some(format!("{kw} {}", qs?.join(" or ")))
}

// ---------------------------------------------------------------------------------------------
// Rust source of values (for generated crates)
// ---------------------------------------------------------------------------------------------

/// a Rust expression of type `::biscuit_auth::builder::Term` for a ground term
pub fn term_rust(t: &Term) -> String {
    const T: &str = "::biscuit_auth::builder::Term";
    const K: &str = "::biscuit_auth::builder::MapKey";
    match t {
        Term::Var(s) => format!("{T}::Variable({s:?}.to_string())"),
        Term::Param(s) => format!("{T}::Parameter({s:?}.to_string())"),
        Term::Int(i) => format!("{T}::Integer({i}i64)"),
        Term::Str(s) => format!("{T}::Str({s:?}.to_string())"),
        Term::Date(d) => format!("{T}::Date({d}u64)"),
        Term::Bytes(b) => format!("{T}::Bytes(vec![{}])", b.iter().map(|x| format!("{x}u8")).collect::<Vec<_>>().join(", ")),
        Term::Bool(b) => format!("{T}::Bool({b})"),
        Term::Null => format!("{T}::Null"),
        Term::Set(s) => format!("{T}::Set(::std::collections::BTreeSet::from_iter(vec![{}]))", s.iter().map(term_rust).collect::<Vec<_>>().join(", ")),
        Term::Array(a) => format!("{T}::Array(vec![{}])", a.iter().map(term_rust).collect::<Vec<_>>().join(", ")),
        Term::Map(m) => format!(
            "{T}::Map(::std::collections::BTreeMap::from_iter(vec![{}]))",
            m.iter()
                .map(|(k, v)| {
                    let k = match k {
                        MapKey::Int(i) => format!("{K}::Integer({i}i64)"),
                        MapKey::Str(s) => format!("{K}::Str({s:?}.to_string())"),
                        MapKey::Param(s) => format!("{K}::Parameter({s:?}.to_string())"),
                    };
                    format!("({k}, {})", term_rust(v))
                })
                .collect::<Vec<_>>()
                .join(", ")
        ),
    }
}
