//! small helpers: panic capture, hashing, seed derivation
use std::cell::RefCell;
use std::hash::{Hash, Hasher};
use std::panic::{catch_unwind, AssertUnwindSafe};
use std::sync::Once;

thread_local! {
    static LAST_PANIC: RefCell<Option<PanicInfo>> = RefCell::new(None);
}

#[derive(Clone, Debug, serde::Serialize, serde::Deserialize, PartialEq, Eq)]
pub struct PanicInfo {
    pub message: String,
    pub file: String,
    pub line: u32,
}

impl PanicInfo {
    /// file name without directories, stable across checkouts
    pub fn site(&self) -> String {
        // keep the path relative to the crate (strip everything up to and including "/src/")
        let f = match self.file.rfind("/src/") {
            Some(i) => {
                // keep crate dir name too
                let head = &self.file[..i];
                let krate = head.rsplit('/').next().unwrap_or("");
                format!("{}{}", krate, &self.file[i..])
            }
            None => self.file.clone(),
        };
        f
    }
}

static HOOK: Once = Once::new();

/// install a panic hook that records the panic in a thread local instead of printing it
pub fn install_panic_hook() {
    HOOK.call_once(|| {
        std::panic::set_hook(Box::new(|info| {
            let message = if let Some(s) = info.payload().downcast_ref::<&str>() {
                s.to_string()
            } else if let Some(s) = info.payload().downcast_ref::<String>() {
                s.clone()
            } else {
                "<non-string panic payload>".to_string()
            };
            let (file, line) = info
                .location()
                .map(|l| (l.file().to_string(), l.line()))
                .unwrap_or_else(|| ("<unknown>".to_string(), 0));
            LAST_PANIC.with(|p| {
                *p.borrow_mut() = Some(PanicInfo {
                    message,
                    file,
                    line,
                })
            });
        }));
    });
}

/// run `f`, converting a panic into `Err(PanicInfo)`
pub fn guard<T>(f: impl FnOnce() -> T) -> Result<T, PanicInfo> {
    install_panic_hook();
    LAST_PANIC.with(|p| *p.borrow_mut() = None);
    match catch_unwind(AssertUnwindSafe(f)) {
        Ok(v) => Ok(v),
        Err(_) => Err(LAST_PANIC.with(|p| p.borrow_mut().take()).unwrap_or(PanicInfo {
            message: "<panic without info>".into(),
            file: "<unknown>".into(),
            line: 0,
        })),
    }
}

/// FNV-1a 64, deterministic across processes (std's DefaultHasher with fixed keys is also
/// deterministic, but we want something explicit)
pub struct Fnv(u64);
impl Default for Fnv {
    fn default() -> Self {
        Fnv(0xcbf29ce484222325)
    }
}
impl Hasher for Fnv {
    fn finish(&self) -> u64 {
        self.0
    }
    fn write(&mut self, bytes: &[u8]) {
        for b in bytes {
            self.0 ^= *b as u64;
            self.0 = self.0.wrapping_mul(0x100000001b3);
        }
    }
}

pub fn hash64<T: Hash>(t: &T) -> u64 {
    let mut h = Fnv::default();
    t.hash(&mut h);
    h.finish()
}

pub fn hash_str(s: &str) -> u64 {
    let mut h = Fnv::default();
    h.write(s.as_bytes());
    h.finish()
}

/// splitmix64
pub fn mix(mut z: u64) -> u64 {
    z = z.wrapping_add(0x9e3779b97f4a7c15);
    z = (z ^ (z >> 30)).wrapping_mul(0xbf58476d1ce4e5b9);
    z = (z ^ (z >> 27)).wrapping_mul(0x94d049bb133111eb);
    z ^ (z >> 31)
}

/// derive a 32 byte seed from (seed, label, worker)
pub fn derive_seed(seed: u64, label: &str, worker: u64) -> [u8; 32] {
    let mut out = [0u8; 32];
    let mut s = mix(seed ^ hash_str(label)).wrapping_add(mix(worker.wrapping_add(0x1234567)));
    for chunk in out.chunks_mut(8) {
        s = mix(s);
        chunk.copy_from_slice(&s.to_le_bytes());
    }
    out
}

pub fn verif_seed() -> u64 {
    std::env::var("VERIF_SEED")
        .ok()
        .and_then(|s| s.trim().parse::<i128>().ok())
        .map(|v| v as u64)
        .unwrap_or(0)
}

/// monotone index mapping: u16 -> 0..len
pub fn pick_idx(i: u16, len: usize) -> usize {
    if len == 0 {
        0
    } else {
        ((i as usize) * len) >> 16
    }
}
