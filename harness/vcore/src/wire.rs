//! Hand-written protobuf codec for the Biscuit *container* messages, written from schema.proto
//! (field numbers and wire types), independent of the prost-generated code in the library.
//!
//!   Biscuit           { 1: rootKeyId varint (optional), 2: authority SignedBlock, 3: repeated blocks, 4: proof }
//!   SignedBlock       { 1: block bytes, 2: nextKey PublicKey, 3: signature bytes, 4: externalSignature (optional), 5: version varint (optional) }
//!   ExternalSignature { 1: signature bytes, 2: publicKey PublicKey }
//!   PublicKey         { 1: algorithm varint (0 = Ed25519, 1 = SECP256R1), 2: key bytes }
//!   Proof             { oneof 1: nextSecret bytes | 2: finalSignature bytes }
use serde::{Deserialize, Serialize};

#[derive(Clone, Debug, PartialEq, Eq)]
pub enum Field {
    Varint(u32, u64),
    Bytes(u32, Vec<u8>),
    Fixed64(u32, u64),
    Fixed32(u32, u32),
}

pub fn read_varint(buf: &[u8], pos: &mut usize) -> Result<u64, String> {
    let mut result: u64 = 0;
    let mut shift = 0;
    loop {
        if *pos >= buf.len() {
            return Err("truncated varint".into());
        }
        let b = buf[*pos];
        *pos += 1;
        if shift >= 64 {
            return Err("varint too long".into());
        }
        result |= ((b & 0x7f) as u64) << shift;
        if b & 0x80 == 0 {
            return Ok(result);
        }
        shift += 7;
    }
}

pub fn write_varint(out: &mut Vec<u8>, mut v: u64) {
    loop {
        let b = (v & 0x7f) as u8;
        v >>= 7;
        if v == 0 {
            out.push(b);
            return;
        } else {
            out.push(b | 0x80);
        }
    }
}

pub fn parse_fields(buf: &[u8]) -> Result<Vec<Field>, String> {
    let mut pos = 0;
    let mut out = vec![];
    while pos < buf.len() {
        let key = read_varint(buf, &mut pos)?;
        let field = (key >> 3) as u32;
        if field == 0 {
            return Err("field number 0".into());
        }
        match key & 7 {
            0 => out.push(Field::Varint(field, read_varint(buf, &mut pos)?)),
            1 => {
                if pos + 8 > buf.len() {
                    return Err("truncated fixed64".into());
                }
                let mut b = [0u8; 8];
                b.copy_from_slice(&buf[pos..pos + 8]);
                pos += 8;
                out.push(Field::Fixed64(field, u64::from_le_bytes(b)));
            }
            2 => {
                let len = read_varint(buf, &mut pos)? as usize;
                if len > buf.len() || pos + len > buf.len() {
                    return Err("truncated bytes".into());
                }
                out.push(Field::Bytes(field, buf[pos..pos + len].to_vec()));
                pos += len;
            }
            5 => {
                if pos + 4 > buf.len() {
                    return Err("truncated fixed32".into());
                }
                let mut b = [0u8; 4];
                b.copy_from_slice(&buf[pos..pos + 4]);
                pos += 4;
                out.push(Field::Fixed32(field, u32::from_le_bytes(b)));
            }
            w => return Err(format!("unsupported wire type {}", w)),
        }
    }
    Ok(out)
}

pub fn put_varint_field(out: &mut Vec<u8>, field: u32, v: u64) {
    write_varint(out, ((field as u64) << 3) | 0);
    write_varint(out, v);
}

pub fn put_bytes_field(out: &mut Vec<u8>, field: u32, b: &[u8]) {
    write_varint(out, ((field as u64) << 3) | 2);
    write_varint(out, b.len() as u64);
    out.extend_from_slice(b);
}

#[derive(Clone, Debug, PartialEq, Eq, Hash, Serialize, Deserialize)]
pub struct WKey {
    pub algorithm: u64,
    pub key: Vec<u8>,
}

#[derive(Clone, Debug, PartialEq, Eq, Hash, Serialize, Deserialize)]
pub struct WExt {
    pub signature: Vec<u8>,
    pub public_key: WKey,
}

#[derive(Clone, Debug, PartialEq, Eq, Hash, Serialize, Deserialize)]
pub struct WBlock {
    pub block: Vec<u8>,
    pub next_key: WKey,
    pub signature: Vec<u8>,
    pub external: Option<WExt>,
    pub version: Option<u64>,
}

#[derive(Clone, Debug, PartialEq, Eq, Hash, Serialize, Deserialize)]
pub enum WProof {
    Secret(Vec<u8>),
    Seal(Vec<u8>),
    Missing,
}

#[derive(Clone, Debug, PartialEq, Eq, Hash, Serialize, Deserialize)]
pub struct WToken {
    pub root_key_id: Option<u64>,
    pub authority: WBlock,
    pub blocks: Vec<WBlock>,
    pub proof: WProof,
}

impl WKey {
    pub fn decode(buf: &[u8]) -> Result<WKey, String> {
        let mut algorithm = None;
        let mut key = None;
        for f in parse_fields(buf)? {
            match f {
                Field::Varint(1, v) => algorithm = Some(v),
                Field::Bytes(2, b) => key = Some(b),
                Field::Varint(n, _) | Field::Bytes(n, _) | Field::Fixed32(n, _) | Field::Fixed64(n, _) if n == 1 || n == 2 => {
                    return Err("PublicKey: wrong wire type".into())
                }
                _ => {}
            }
        }
        Ok(WKey {
            algorithm: algorithm.ok_or("PublicKey: missing algorithm")?,
            key: key.ok_or("PublicKey: missing key")?,
        })
    }
    pub fn encode(&self) -> Vec<u8> {
        let mut out = vec![];
        put_varint_field(&mut out, 1, self.algorithm);
        put_bytes_field(&mut out, 2, &self.key);
        out
    }
}

impl WExt {
    pub fn decode(buf: &[u8]) -> Result<WExt, String> {
        let mut signature = None;
        let mut public_key = None;
        for f in parse_fields(buf)? {
            match f {
                Field::Bytes(1, b) => signature = Some(b),
                Field::Bytes(2, b) => public_key = Some(WKey::decode(&b)?),
                Field::Varint(n, _) | Field::Fixed32(n, _) | Field::Fixed64(n, _) if n == 1 || n == 2 => {
                    return Err("ExternalSignature: wrong wire type".into())
                }
                _ => {}
            }
        }
        Ok(WExt {
            signature: signature.ok_or("ExternalSignature: missing signature")?,
            public_key: public_key.ok_or("ExternalSignature: missing key")?,
        })
    }
    pub fn encode(&self) -> Vec<u8> {
        let mut out = vec![];
        put_bytes_field(&mut out, 1, &self.signature);
        put_bytes_field(&mut out, 2, &self.public_key.encode());
        out
    }
}

impl WBlock {
    pub fn decode(buf: &[u8]) -> Result<WBlock, String> {
        let mut block = None;
        let mut next_key = None;
        let mut signature = None;
        let mut external = None;
        let mut version = None;
        for f in parse_fields(buf)? {
            match f {
                Field::Bytes(1, b) => block = Some(b),
                Field::Bytes(2, b) => next_key = Some(WKey::decode(&b)?),
                Field::Bytes(3, b) => signature = Some(b),
                Field::Bytes(4, b) => external = Some(WExt::decode(&b)?),
                Field::Varint(5, v) => version = Some(v),
                Field::Varint(n, _) | Field::Bytes(n, _) | Field::Fixed32(n, _) | Field::Fixed64(n, _) if (1..=5).contains(&n) => {
                    return Err("SignedBlock: wrong wire type".into())
                }
                _ => {}
            }
        }
        Ok(WBlock {
            block: block.ok_or("SignedBlock: missing block")?,
            next_key: next_key.ok_or("SignedBlock: missing nextKey")?,
            signature: signature.ok_or("SignedBlock: missing signature")?,
            external,
            version,
        })
    }
    pub fn encode(&self) -> Vec<u8> {
        let mut out = vec![];
        put_bytes_field(&mut out, 1, &self.block);
        put_bytes_field(&mut out, 2, &self.next_key.encode());
        put_bytes_field(&mut out, 3, &self.signature);
        if let Some(e) = &self.external {
            put_bytes_field(&mut out, 4, &e.encode());
        }
        if let Some(v) = self.version {
            put_varint_field(&mut out, 5, v);
        }
        out
    }
    pub fn version_or_zero(&self) -> u64 {
        self.version.unwrap_or(0)
    }
}

impl WToken {
    pub fn decode(buf: &[u8]) -> Result<WToken, String> {
        let mut root_key_id = None;
        let mut authority = None;
        let mut blocks = vec![];
        let mut proof = WProof::Missing;
        let mut saw_proof = false;
        for f in parse_fields(buf)? {
            match f {
                Field::Varint(1, v) => root_key_id = Some(v),
                Field::Bytes(2, b) => authority = Some(WBlock::decode(&b)?),
                Field::Bytes(3, b) => blocks.push(WBlock::decode(&b)?),
                Field::Bytes(4, b) => {
                    saw_proof = true;
                    for pf in parse_fields(&b)? {
                        match pf {
                            Field::Bytes(1, s) => proof = WProof::Secret(s),
                            Field::Bytes(2, s) => proof = WProof::Seal(s),
                            Field::Varint(n, _) | Field::Fixed32(n, _) | Field::Fixed64(n, _) if n == 1 || n == 2 => {
                                return Err("Proof: wrong wire type".into())
                            }
                            _ => {}
                        }
                    }
                }
                Field::Varint(n, _) | Field::Bytes(n, _) | Field::Fixed32(n, _) | Field::Fixed64(n, _) if (1..=4).contains(&n) => {
                    return Err("Biscuit: wrong wire type".into())
                }
                _ => {}
            }
        }
        if !saw_proof {
            return Err("Biscuit: missing proof".into());
        }
        Ok(WToken {
            root_key_id,
            authority: authority.ok_or("Biscuit: missing authority")?,
            blocks,
            proof,
        })
    }

    /// canonical encoding (field order of the schema, the one prost emits)
    pub fn encode(&self) -> Vec<u8> {
        let mut out = vec![];
        if let Some(id) = self.root_key_id {
            put_varint_field(&mut out, 1, id);
        }
        put_bytes_field(&mut out, 2, &self.authority.encode());
        for b in &self.blocks {
            put_bytes_field(&mut out, 3, &b.encode());
        }
        let mut p = vec![];
        match &self.proof {
            WProof::Secret(s) => put_bytes_field(&mut p, 1, s),
            WProof::Seal(s) => put_bytes_field(&mut p, 2, s),
            WProof::Missing => {}
        }
        put_bytes_field(&mut out, 4, &p);
        out
    }

    /// a non-canonical but equivalent encoding: proof first, unknown field appended, blocks kept in order
    pub fn encode_reordered(&self) -> Vec<u8> {
        let mut out = vec![];
        let mut p = vec![];
        match &self.proof {
            WProof::Secret(s) => put_bytes_field(&mut p, 1, s),
            WProof::Seal(s) => put_bytes_field(&mut p, 2, s),
            WProof::Missing => {}
        }
        put_bytes_field(&mut out, 4, &p);
        for b in &self.blocks {
            put_bytes_field(&mut out, 3, &b.encode());
        }
        put_bytes_field(&mut out, 2, &self.authority.encode());
        if let Some(id) = self.root_key_id {
            put_varint_field(&mut out, 1, id);
        }
        put_varint_field(&mut out, 15, 7);
        out
    }

    pub fn all_blocks(&self) -> Vec<&WBlock> {
        let mut v = vec![&self.authority];
        v.extend(self.blocks.iter());
        v
    }
    pub fn block_mut(&mut self, i: usize) -> &mut WBlock {
        if i == 0 {
            &mut self.authority
        } else {
            &mut self.blocks[i - 1]
        }
    }
    pub fn block_count(&self) -> usize {
        1 + self.blocks.len()
    }
}
