//! parallel, deterministic proptest driver + evidence + known findings
use crate::util::{derive_seed, hash_str};
use proptest::strategy::BoxedStrategy;
use proptest::test_runner::{Config, RngAlgorithm, TestCaseError, TestError, TestRng, TestRunner};
use serde::{Deserialize, Serialize};
use serde_json::{json, Value};
use std::collections::{BTreeMap, BTreeSet, HashSet};
use std::path::{Path, PathBuf};
use std::sync::atomic::{AtomicBool, Ordering};
use std::sync::Mutex;
use std::time::Instant;

pub const WORKERS: u64 = 16;

#[derive(Clone, Copy, Debug, PartialEq, Eq)]
pub enum Tier {
    Quick,
    Thorough,
}

impl Tier {
    pub fn name(&self) -> &'static str {
        match self {
            Tier::Quick => "quick",
            Tier::Thorough => "thorough",
        }
    }
    pub fn pick(&self, quick: u32, thorough: u32) -> u32 {
        match self {
            Tier::Quick => quick,
            Tier::Thorough => thorough,
        }
    }
}

pub fn verif_root() -> PathBuf {
    std::env::var("VERIF_ROOT")
        .map(PathBuf::from)
        .unwrap_or_else(|_| PathBuf::from("/verif"))
}

#[derive(Clone, Debug, Serialize, Deserialize)]
pub struct KnownFinding {
    pub property: String,
    pub signature: String,
    pub status: String, // "open" | "fixed"
    #[serde(default)]
    pub commit: Option<String>,
    pub what: String,
}

#[derive(Clone, Debug, Default)]
pub struct KnownFindings {
    pub entries: Vec<KnownFinding>,
}

impl KnownFindings {
    pub fn load() -> Self {
        let p = verif_root().join("known_findings.json");
        match std::fs::read_to_string(&p) {
            Ok(s) => {
                let v: Value = serde_json::from_str(&s).expect("known_findings.json is not valid JSON");
                let entries: Vec<KnownFinding> =
                    serde_json::from_value(v["findings"].clone()).expect("known_findings.json: bad `findings`");
                KnownFindings { entries }
            }
            Err(_) => KnownFindings::default(),
        }
    }
    pub fn is_open(&self, property: &str, signature: &str) -> bool {
        self.entries
            .iter()
            .any(|e| e.property == property && e.status == "open" && e.signature == signature)
    }
    pub fn open_for(&self, property: &str) -> Vec<&KnownFinding> {
        self.entries
            .iter()
            .filter(|e| e.property == property && e.status == "open")
            .collect()
    }
}

/// A violation found by an oracle
#[derive(Clone, Debug, Serialize, Deserialize)]
pub struct Violation {
    /// stable signature naming input class and call site (matched against known findings)
    pub signature: String,
    pub detail: String,
}

impl Violation {
    pub fn new(signature: impl Into<String>, detail: impl Into<String>) -> Self {
        Violation {
            signature: signature.into(),
            detail: detail.into(),
        }
    }
}

/// What one case reports about itself
#[derive(Default, Debug)]
pub struct Report {
    pub classes: Vec<String>,
    pub nontrivial: Option<u64>, // hash of the canonicalised case when non-trivial
    pub sample: Option<Value>,
    pub evaluations: u64, // number of oracle evaluations inside this case (>=1)
    pub excluded: u64,
    pub extra_nontrivial: Vec<u64>,
}

impl Report {
    pub fn class(&mut self, c: impl Into<String>) {
        self.classes.push(c.into());
    }
    pub fn nontrivial(&mut self, h: u64) {
        self.nontrivial = Some(h);
    }
    pub fn also_nontrivial(&mut self, h: u64) {
        self.extra_nontrivial.push(h);
    }
    pub fn sample(&mut self, v: Value) {
        self.sample = Some(v);
    }
    pub fn evals(&mut self, n: u64) {
        self.evaluations += n;
    }
}

#[derive(Default)]
struct StatsInner {
    cases: u64,
    evaluations: u64,
    nontrivial: HashSet<u64>,
    classes: BTreeMap<String, u64>,
    samples: Vec<Value>,
    excluded: u64,
    known_hits: BTreeMap<String, u64>,
    violations: Vec<(Violation, PathBuf)>,
    notes: Vec<String>,
    assumptions: BTreeSet<String>,
    extra: BTreeMap<String, Value>,
}

pub struct Ctx {
    pub property: String,
    pub tier: Tier,
    pub seed: u64,
    pub known: KnownFindings,
    pub level: String,
    pub rule: Mutex<String>,
    start: Instant,
    inner: Mutex<StatsInner>,
    /// strict mode (replay): known findings are not tolerated silently, they are printed
    pub replay_mode: bool,
    pub max_samples: usize,
}

impl Ctx {
    pub fn new(property: &str, tier: Tier, level: &str) -> Self {
        Ctx {
            property: property.to_string(),
            tier,
            seed: crate::util::verif_seed(),
            known: KnownFindings::load(),
            level: level.to_string(),
            rule: Mutex::new(String::new()),
            start: Instant::now(),
            inner: Mutex::new(StatsInner::default()),
            replay_mode: false,
            max_samples: 6,
        }
    }

    /// Worker threads evaluate under a virtual clock that does not move (hook H1): wherever the
    /// library's 1 ms default time limit applies (`Biscuit::authorizer()`, restored policies) a
    /// loaded machine would otherwise turn an outcome into `Timeout` and make two sides of a
    /// comparison differ. C10, whose subject is the budgets, drives the clock itself.
    pub fn freeze_clock(&self) {
        if self.property != "C10" {
            biscuit_auth::verif_hooks::verif_clock::enable();
        }
    }

    pub fn set_rule(&self, r: &str) {
        let mut g = self.rule.lock().unwrap();
        if !g.is_empty() {
            g.push_str(" || ");
        }
        g.push_str(r);
    }
    pub fn assume(&self, a: &str) {
        self.inner.lock().unwrap().assumptions.insert(a.to_string());
    }
    pub fn note(&self, n: impl Into<String>) {
        self.inner.lock().unwrap().notes.push(n.into());
    }
    pub fn extra(&self, k: &str, v: Value) {
        self.inner.lock().unwrap().extra.insert(k.to_string(), v);
    }
    pub fn class_add(&self, c: &str, n: u64) {
        *self.inner.lock().unwrap().classes.entry(c.to_string()).or_insert(0) += n;
    }

    pub fn merge(&self, r: Report) {
        let mut g = self.inner.lock().unwrap();
        g.cases += 1;
        g.evaluations += r.evaluations.max(1);
        g.excluded += r.excluded;
        for c in r.classes {
            *g.classes.entry(c).or_insert(0) += 1;
        }
        let mut first_nt = false;
        if let Some(h) = r.nontrivial {
            first_nt = g.nontrivial.insert(h);
        }
        for h in r.extra_nontrivial {
            g.nontrivial.insert(h);
        }
        if let Some(s) = r.sample {
            if (first_nt || r.nontrivial.is_none() && g.samples.is_empty()) && g.samples.len() < self.max_samples {
                g.samples.push(s);
            }
        }
    }

    pub fn known_hit(&self, sig: &str) {
        *self
            .inner
            .lock()
            .unwrap()
            .known_hits
            .entry(sig.to_string())
            .or_insert(0) += 1;
    }

    /// record a violation; writes the replay file and prints the VIOLATION line
    pub fn violation(&self, sub: &str, v: &Violation, case: &Value) -> PathBuf {
        let dir = verif_root().join("replays").join(&self.property);
        let _ = std::fs::create_dir_all(&dir);
        let body = json!({
            "property": self.property,
            "sub": sub,
            "signature": v.signature,
            "detail": v.detail,
            "seed": self.seed,
            "case": case,
        });
        let text = serde_json::to_string_pretty(&body).unwrap();
        let h = hash_str(&format!("{}{}{}", sub, v.signature, serde_json::to_string(case).unwrap()));
        let path = dir.join(format!("{}-{:016x}.json", sub, h));
        let _ = std::fs::write(&path, text);
        println!("VIOLATION property={} replay={}", self.property, path.display());
        println!("  signature: {}", v.signature);
        let d: String = v.detail.chars().take(2000).collect();
        println!("  detail: {}", d);
        self.inner.lock().unwrap().violations.push((v.clone(), path.clone()));
        path
    }

    pub fn violation_count(&self) -> usize {
        self.inner.lock().unwrap().violations.len()
    }

    /// classify: returns true when the violation is a known open finding (tolerated)
    pub fn tolerate(&self, v: &Violation) -> bool {
        if self.known.is_open(&self.property, &v.signature) {
            self.known_hit(&v.signature);
            true
        } else if std::env::var("VERIF_SURVEY").is_ok() {
            // development aid: list every signature instead of stopping at the first (exit code 3)
            let first = {
                let mut g = self.inner.lock().unwrap();
                let e = g.known_hits.entry(format!("SURVEY {}", v.signature)).or_insert(0);
                *e += 1;
                *e == 1
            };
            if first {
                eprintln!("SURVEY {} :: {}", v.signature, v.detail.chars().take(600).collect::<String>());
            }
            true
        } else {
            false
        }
    }

    /// Run a property over generated cases on WORKERS deterministic workers.
    /// `test` returns Err(Violation) on failure; known open findings are tolerated and counted.
    pub fn run_prop<C, MS, T>(&self, sub: &str, total_cases: u32, make_strategy: MS, test: T)
    where
        C: std::fmt::Debug + Clone + Serialize + Send + 'static,
        MS: Fn() -> BoxedStrategy<C> + Sync,
        T: Fn(&C, &mut Report) -> Result<(), Violation> + Sync,
    {
        let per = (total_cases as u64 + WORKERS - 1) / WORKERS;
        let stop = AtomicBool::new(false);
        std::thread::scope(|scope| {
            for w in 0..WORKERS {
                let stop = &stop;
                let test = &test;
                let make_strategy = &make_strategy;
                std::thread::Builder::new()
                    .stack_size(64 << 20)
                    .spawn_scoped(scope, move || {
                        self.freeze_clock();
                        let seed = derive_seed(self.seed, &format!("{}/{}", self.property, sub), w);
                        let config = Config {
                            cases: per as u32,
                            failure_persistence: None,
                            max_shrink_iters: 4096,
                            max_global_rejects: 1 << 20,
                            ..Config::default()
                        };
                        let rng = TestRng::from_seed(RngAlgorithm::ChaCha, &seed);
                        let mut runner = TestRunner::new_with_rng(config, rng);
                        let strategy = make_strategy();
                        let failed = std::cell::Cell::new(false);
                        let res = runner.run(&strategy, |case| {
                            if stop.load(Ordering::Relaxed) && !failed.get() {
                                // another worker failed: finish quickly
                                return Ok(());
                            }
                            let mut rep = Report::default();
                            let r = crate::util::guard(|| test(&case, &mut rep));
                            let r = match r {
                                Ok(r) => r,
                                Err(p) => Err(Violation::new(
                                    format!("harness-panic:{}", p.site()),
                                    format!("panic escaped the oracle: {} at {}:{}", p.message, p.file, p.line),
                                )),
                            };
                            if !failed.get() {
                                self.merge(rep);
                            }
                            match r {
                                Ok(()) => Ok(()),
                                Err(v) => {
                                    if self.tolerate(&v) {
                                        Ok(())
                                    } else {
                                        failed.set(true);
                                        stop.store(true, Ordering::Relaxed);
                                        Err(TestCaseError::fail(serde_json::to_string(&v).unwrap()))
                                    }
                                }
                            }
                        });
                        match res {
                            Ok(()) => {}
                            Err(TestError::Fail(reason, value)) => {
                                let v: Violation = serde_json::from_str(reason.message()).unwrap_or(Violation::new(
                                    "unparsed",
                                    reason.message().to_string(),
                                ));
                                let case = serde_json::to_value(&value).unwrap_or(Value::Null);
                                self.violation(sub, &v, &case);
                            }
                            Err(TestError::Abort(reason)) => {
                                self.note(format!("proptest abort in {}: {}", sub, reason.message()));
                                eprintln!("proptest abort in {}/{}: {}", self.property, sub, reason.message());
                                self.inner.lock().unwrap().extra.insert("aborted".into(), json!(true));
                            }
                        }
                    })
                    .unwrap();
            }
        });
    }

    /// Run a fixed list of cases (enumeration / regression replay), in parallel chunks.
    pub fn run_list<C, T>(&self, sub: &str, cases: &[C], test: T)
    where
        C: std::fmt::Debug + Clone + Serialize + Sync,
        T: Fn(&C, &mut Report) -> Result<(), Violation> + Sync,
    {
        let n = cases.len();
        let chunk = (n + WORKERS as usize - 1) / (WORKERS as usize).max(1);
        if n == 0 {
            return;
        }
        std::thread::scope(|scope| {
            for part in cases.chunks(chunk.max(1)) {
                let test = &test;
                std::thread::Builder::new()
                    .stack_size(64 << 20)
                    .spawn_scoped(scope, move || {
                        self.freeze_clock();
                        let mut reported: HashSet<String> = HashSet::new();
                        for case in part {
                            let mut rep = Report::default();
                            let r = crate::util::guard(|| test(case, &mut rep));
                            let r = match r {
                                Ok(r) => r,
                                Err(p) => Err(Violation::new(
                                    format!("harness-panic:{}", p.site()),
                                    format!("panic escaped the oracle: {} at {}:{}", p.message, p.file, p.line),
                                )),
                            };
                            self.merge(rep);
                            if let Err(v) = r {
                                if !self.tolerate(&v) && reported.insert(v.signature.clone()) {
                                    let case = serde_json::to_value(case).unwrap_or(Value::Null);
                                    self.violation(sub, &v, &case);
                                }
                            }
                        }
                    })
                    .unwrap();
            }
        });
    }

    /// write evidence and return the exit code
    pub fn finish(&self) -> i32 {
        let g = self.inner.lock().unwrap();
        let wall = self.start.elapsed().as_secs_f64();
        for (sig, n) in &g.known_hits {
            let what = self
                .known
                .entries
                .iter()
                .find(|e| e.property == self.property && &e.signature == sig)
                .map(|e| e.what.clone())
                .unwrap_or_default();
            println!(
                "KNOWN-FINDING: property={} signature=\"{}\" hits={} {}",
                self.property, sig, n, what
            );
        }
        let aborted = g.extra.get("aborted").is_some();
        let mut coverage = serde_json::Map::new();
        coverage.insert("evaluations".into(), json!(g.evaluations.max(g.cases)));
        coverage.insert("cases".into(), json!(g.cases));
        coverage.insert("distinct_nontrivial".into(), json!(g.nontrivial.len()));
        coverage.insert("rule".into(), json!(self.rule.lock().unwrap().clone()));
        coverage.insert("samples".into(), json!(g.samples));
        coverage.insert("classes".into(), json!(g.classes));
        coverage.insert("excluded_by_construction".into(), json!(g.excluded));
        coverage.insert("known_findings_hit".into(), json!(g.known_hits));
        coverage.insert("notes".into(), json!(g.notes));
        coverage.insert("workers".into(), json!(WORKERS));
        for (k, v) in &g.extra {
            coverage.insert(k.clone(), v.clone());
        }
        let ev = json!({
            "property_id": self.property,
            "tier": self.tier.name(),
            "seed": self.seed as i64,
            "level": self.level,
            "coverage": Value::Object(coverage),
            "assumptions": g.assumptions.iter().collect::<Vec<_>>(),
            "wall_s": wall,
            "violations": g.violations.len(),
        });
        if !self.replay_mode {
            let dir = verif_root().join("evidence");
            let _ = std::fs::create_dir_all(&dir);
            let path = dir.join(format!("{}.json", self.property));
            std::fs::write(&path, serde_json::to_string_pretty(&ev).unwrap()).expect("write evidence");
        }
        println!(
            "{} {}: cases={} evaluations={} distinct_nontrivial={} known_hits={} violations={} wall={:.1}s",
            self.property,
            self.tier.name(),
            g.cases,
            g.evaluations,
            g.nontrivial.len(),
            g.known_hits.values().sum::<u64>(),
            g.violations.len(),
            wall
        );
        if !g.violations.is_empty() {
            1
        } else if aborted {
            2
        } else {
            0
        }
    }
}

pub fn read_json(path: &Path) -> Value {
    let s = std::fs::read_to_string(path).unwrap_or_else(|e| panic!("cannot read {}: {}", path.display(), e));
    serde_json::from_str(&s).unwrap_or_else(|e| panic!("bad json {}: {}", path.display(), e))
}
