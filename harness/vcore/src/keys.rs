//! deterministic key material
use biscuit_auth::builder::Algorithm;
use biscuit_auth::{KeyPair, PublicKey};
use rand_chacha::ChaCha20Rng;
use rand_core::SeedableRng;
use serde::{Deserialize, Serialize};

#[derive(Clone, Copy, Debug, PartialEq, Eq, Hash, PartialOrd, Ord, Serialize, Deserialize)]
pub enum Alg {
    Ed,
    P256,
}

impl Alg {
    pub fn to_lib(self) -> Algorithm {
        match self {
            Alg::Ed => Algorithm::Ed25519,
            Alg::P256 => Algorithm::Secp256r1,
        }
    }
    pub fn name(self) -> &'static str {
        match self {
            Alg::Ed => "ed25519",
            Alg::P256 => "secp256r1",
        }
    }
}

#[derive(Clone, Copy, Debug, PartialEq, Eq, Hash, PartialOrd, Ord, Serialize, Deserialize)]
pub struct KeyPlan {
    pub alg: Alg,
    pub seed: u64,
}

impl KeyPlan {
    pub fn keypair(&self) -> KeyPair {
        let mut rng = ChaCha20Rng::seed_from_u64(self.seed ^ 0x5eed_0000_0000);
        KeyPair::new_with_rng(self.alg.to_lib(), &mut rng)
    }
    pub fn public(&self) -> PublicKey {
        self.keypair().public()
    }
}

pub fn rng_from(seed: u64) -> ChaCha20Rng {
    ChaCha20Rng::seed_from_u64(seed)
}

pub fn publics(keys: &[KeyPlan]) -> Vec<PublicKey> {
    keys.iter().map(|k| k.public()).collect()
}
