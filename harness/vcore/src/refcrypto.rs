//! RefCrypto: independent verification and signing of the Biscuit container, written from the
//! specification (payload layouts, chaining rules, proof). Primitives: ed25519-dalek and p256.
use crate::wire::*;
use ed25519_dalek::Signer as _;
use p256::ecdsa::signature::Verifier as _;
use serde::{Deserialize, Serialize};

pub const ALG_ED25519: u64 = 0;
pub const ALG_P256: u64 = 1;

#[derive(Clone, Debug, PartialEq, Eq)]
pub enum RKey {
    Ed(ed25519_dalek::VerifyingKey),
    P256(p256::ecdsa::VerifyingKey),
}

impl RKey {
    pub fn parse(k: &WKey) -> Result<RKey, String> {
        match k.algorithm {
            ALG_ED25519 => {
                let b: [u8; 32] = k.key.as_slice().try_into().map_err(|_| "ed25519 key must be 32 bytes".to_string())?;
                ed25519_dalek::VerifyingKey::from_bytes(&b)
                    .map(RKey::Ed)
                    .map_err(|e| format!("bad ed25519 key: {e}"))
            }
            ALG_P256 => p256::ecdsa::VerifyingKey::from_sec1_bytes(&k.key)
                .map(RKey::P256)
                .map_err(|e| format!("bad p256 key: {e}")),
            a => Err(format!("unknown algorithm {a}")),
        }
    }
    pub fn algorithm(&self) -> u64 {
        match self {
            RKey::Ed(_) => ALG_ED25519,
            RKey::P256(_) => ALG_P256,
        }
    }
    /// canonical key bytes as they enter signature payloads: 32 bytes, or compressed SEC1
    pub fn bytes(&self) -> Vec<u8> {
        match self {
            RKey::Ed(k) => k.to_bytes().to_vec(),
            RKey::P256(k) => k.to_encoded_point(true).as_bytes().to_vec(),
        }
    }
    pub fn to_wire(&self) -> WKey {
        WKey {
            algorithm: self.algorithm(),
            key: self.bytes(),
        }
    }
    pub fn verify(&self, msg: &[u8], sig: &[u8]) -> Result<(), String> {
        match self {
            RKey::Ed(k) => {
                let b: [u8; 64] = sig.try_into().map_err(|_| "ed25519 signature must be 64 bytes".to_string())?;
                let s = ed25519_dalek::Signature::from_bytes(&b);
                k.verify_strict(msg, &s).map_err(|e| format!("ed25519: {e}"))
            }
            RKey::P256(k) => {
                let s = p256::ecdsa::Signature::from_der(sig).map_err(|e| format!("p256 der: {e}"))?;
                k.verify(msg, &s).map_err(|e| format!("p256: {e}"))
            }
        }
    }
}

#[derive(Clone)]
pub enum RSecret {
    Ed(ed25519_dalek::SigningKey),
    P256(p256::ecdsa::SigningKey),
}

impl RSecret {
    pub fn from_bytes(alg: u64, b: &[u8]) -> Result<RSecret, String> {
        match alg {
            ALG_ED25519 => {
                let b: [u8; 32] = b.try_into().map_err(|_| "ed25519 secret must be 32 bytes".to_string())?;
                Ok(RSecret::Ed(ed25519_dalek::SigningKey::from_bytes(&b)))
            }
            ALG_P256 => {
                if b.len() != 32 {
                    return Err("p256 secret must be 32 bytes".into());
                }
                p256::ecdsa::SigningKey::from_bytes(b.into())
                    .map(RSecret::P256)
                    .map_err(|e| format!("bad p256 secret: {e}"))
            }
            a => Err(format!("unknown algorithm {a}")),
        }
    }
    pub fn from_keypair(kp: &biscuit_auth::KeyPair) -> RSecret {
        let alg = match kp {
            biscuit_auth::KeyPair::Ed25519(_) => ALG_ED25519,
            biscuit_auth::KeyPair::P256(_) => ALG_P256,
        };
        RSecret::from_bytes(alg, &kp.private().to_bytes()).expect("library keypair has valid private bytes")
    }
    pub fn public(&self) -> RKey {
        match self {
            RSecret::Ed(k) => RKey::Ed(k.verifying_key()),
            RSecret::P256(k) => RKey::P256(*k.verifying_key()),
        }
    }
    pub fn bytes(&self) -> Vec<u8> {
        match self {
            RSecret::Ed(k) => k.to_bytes().to_vec(),
            RSecret::P256(k) => k.to_bytes().to_vec(),
        }
    }
    pub fn sign(&self, msg: &[u8]) -> Vec<u8> {
        match self {
            RSecret::Ed(k) => k.sign(msg).to_bytes().to_vec(),
            RSecret::P256(k) => {
                let s: p256::ecdsa::Signature = k.sign(msg);
                s.to_der().as_bytes().to_vec()
            }
        }
    }
}

fn le32(v: u64) -> [u8; 4] {
    (v as u32).to_le_bytes()
}

/// v0 payload: payload || [external signature] || algorithm(le32) || next key
pub fn payload_v0(payload: &[u8], next: &RKey, ext_sig: Option<&[u8]>) -> Vec<u8> {
    let mut v = payload.to_vec();
    if let Some(s) = ext_sig {
        v.extend_from_slice(s);
    }
    v.extend_from_slice(&le32(next.algorithm()));
    v.extend_from_slice(&next.bytes());
    v
}

/// v1 payload
pub fn payload_v1(payload: &[u8], next: &RKey, prev_sig: Option<&[u8]>, ext_sig: Option<&[u8]>, version: u64) -> Vec<u8> {
    let mut v = b"\0BLOCK\0\0VERSION\0".to_vec();
    v.extend_from_slice(&le32(version));
    v.extend_from_slice(b"\0PAYLOAD\0");
    v.extend_from_slice(payload);
    v.extend_from_slice(b"\0ALGORITHM\0");
    v.extend_from_slice(&le32(next.algorithm()));
    v.extend_from_slice(b"\0NEXTKEY\0");
    v.extend_from_slice(&next.bytes());
    if let Some(p) = prev_sig {
        v.extend_from_slice(b"\0PREVSIG\0");
        v.extend_from_slice(p);
    }
    if let Some(s) = ext_sig {
        v.extend_from_slice(b"\0EXTERNALSIG\0");
        v.extend_from_slice(s);
    }
    v
}

/// external signature payload (v1)
pub fn payload_external_v1(payload: &[u8], prev_sig: &[u8], version: u64) -> Vec<u8> {
    let mut v = b"\0EXTERNAL\0\0VERSION\0".to_vec();
    v.extend_from_slice(&le32(version));
    v.extend_from_slice(b"\0PAYLOAD\0");
    v.extend_from_slice(payload);
    v.extend_from_slice(b"\0PREVSIG\0");
    v.extend_from_slice(prev_sig);
    v
}

/// seal payload: payload || algorithm || next key || signature (of the last block)
pub fn payload_seal(payload: &[u8], next: &RKey, sig: &[u8]) -> Vec<u8> {
    let mut v = payload.to_vec();
    v.extend_from_slice(&le32(next.algorithm()));
    v.extend_from_slice(&next.bytes());
    v.extend_from_slice(sig);
    v
}

/// the signed content of a token, normalised: what the statement calls "the same signed blocks"
#[derive(Clone, Debug, PartialEq, Eq, Hash, Serialize, Deserialize)]
pub struct SignedBlockView {
    pub payload: Vec<u8>,
    pub next_key_alg: u64,
    pub next_key: Vec<u8>, // canonical bytes
    pub signature: Vec<u8>,
    pub external: Option<(u64, Vec<u8>, Vec<u8>)>, // (alg, canonical key, signature)
    pub version: u64,
}

#[derive(Clone, Debug, PartialEq, Eq, Hash, Serialize, Deserialize)]
pub enum ProofView {
    Secret(Vec<u8>),
    Seal(Vec<u8>),
}

#[derive(Clone, Debug, PartialEq, Eq, Hash, Serialize, Deserialize)]
pub struct TokenView {
    pub blocks: Vec<SignedBlockView>,
    pub proof: ProofView,
}

#[derive(Clone, Debug)]
pub struct Verified {
    pub view: TokenView,
    pub root_key_id: Option<u64>,
}

/// Verify a wire token under `root` following the specification. Returns the normalised view.
pub fn verify_token(bytes: &[u8], root: &RKey) -> Result<Verified, String> {
    let t = WToken::decode(bytes)?;
    verify_wtoken(&t, root)
}

pub fn verify_wtoken(t: &WToken, root: &RKey) -> Result<Verified, String> {
    if t.authority.external.is_some() {
        return Err("authority block carries an external signature".into());
    }
    let mut views = vec![];
    let mut current = root.clone();
    let mut prev_sig: Option<Vec<u8>> = None;
    for (i, blk) in t.all_blocks().into_iter().enumerate() {
        let next = RKey::parse(&blk.next_key).map_err(|e| format!("block {i}: {e}"))?;
        let version = blk.version_or_zero();
        let ext = match &blk.external {
            None => None,
            Some(e) => {
                if blk.version != Some(1) {
                    return Err(format!("block {i}: third-party block must use signature version 1"));
                }
                let k = RKey::parse(&e.public_key).map_err(|er| format!("block {i} external key: {er}"))?;
                Some((k, e.signature.clone()))
            }
        };
        let to_verify = match version {
            0 => payload_v0(&blk.block, &next, ext.as_ref().map(|e| e.1.as_slice())),
            1 => payload_v1(
                &blk.block,
                &next,
                if i == 0 { None } else { prev_sig.as_deref() },
                ext.as_ref().map(|e| e.1.as_slice()),
                version,
            ),
            v => return Err(format!("block {i}: unsupported signature version {v}")),
        };
        current
            .verify(&to_verify, &blk.signature)
            .map_err(|e| format!("block {i} signature: {e}"))?;
        if let Some((k, s)) = &ext {
            let p = prev_sig.as_ref().ok_or("external signature on first block")?;
            let ev = payload_external_v1(&blk.block, p, version);
            k.verify(&ev, s).map_err(|e| format!("block {i} external signature: {e}"))?;
        }
        views.push(SignedBlockView {
            payload: blk.block.clone(),
            next_key_alg: next.algorithm(),
            next_key: next.bytes(),
            signature: blk.signature.clone(),
            external: ext.as_ref().map(|(k, s)| (k.algorithm(), k.bytes(), s.clone())),
            version,
        });
        prev_sig = Some(blk.signature.clone());
        current = next;
    }
    let last = t.all_blocks().into_iter().last().unwrap();
    let proof = match &t.proof {
        WProof::Missing => return Err("missing proof".into()),
        WProof::Secret(s) => {
            let sec = RSecret::from_bytes(current.algorithm(), s)?;
            if sec.public() != current {
                return Err("proof secret does not match the last next key".into());
            }
            ProofView::Secret(s.clone())
        }
        WProof::Seal(sig) => {
            let p = payload_seal(&last.block, &current, &last.signature);
            current.verify(&p, sig).map_err(|e| format!("seal: {e}"))?;
            ProofView::Seal(sig.clone())
        }
    };
    Ok(Verified {
        view: TokenView { blocks: views, proof },
        root_key_id: t.root_key_id,
    })
}

/// the signature version rule of the specification, as a function of what the signer knows
pub fn expected_signature_version(
    signing_alg: u64,
    next_alg: u64,
    third_party: bool,
    datalog_version: Option<u64>,
    previous_versions: &[u64],
) -> u64 {
    if third_party {
        return 1;
    }
    if let Some(v) = datalog_version {
        if v >= 6 {
            return 1;
        }
    }
    if signing_alg != ALG_ED25519 || next_alg != ALG_ED25519 {
        return 1;
    }
    previous_versions.iter().copied().max().unwrap_or(0)
}

/// Datalog version declared by a block payload (field 3 of the Block message)
pub fn declared_datalog_version(payload: &[u8]) -> Option<u64> {
    let fields = parse_fields(payload).ok()?;
    let mut ver = None;
    for f in fields {
        if let Field::Varint(3, x) = f {
            ver = Some(x);
        }
    }
    ver
}

/// Is the signature of block `i` bound by a later signature? Decided from the specification's
/// version rule applied to what each signer knew (keys, block kinds, declared Datalog versions),
/// NOT from the versions written on the wire: a token whose later block was wrongly signed with
/// the version-0 layout still counts as one whose earlier signature has to be covered.
pub fn signature_is_covered(view: &TokenView, root_alg: u64, i: usize) -> bool {
    let n = view.blocks.len();
    if i + 1 >= n {
        return matches!(view.proof, ProofView::Seal(_));
    }
    let mut prev = vec![];
    let mut signing = root_alg;
    for (k, b) in view.blocks.iter().enumerate() {
        let exp = expected_signature_version(signing, b.next_key_alg, b.external.is_some(), declared_datalog_version(&b.payload), &prev);
        if k == i + 1 {
            return exp >= 1;
        }
        prev.push(exp);
        signing = b.next_key_alg;
    }
    false
}

/// RefSigner: builds valid tokens around arbitrary payload bytes
pub struct RefSigner {
    pub token: WToken,
    next_secret: RSecret,
}

impl RefSigner {
    pub fn new(root: &RSecret, next: &RSecret, payload: &[u8], version: u64, root_key_id: Option<u64>) -> RefSigner {
        let nk = next.public();
        let to_sign = match version {
            0 => payload_v0(payload, &nk, None),
            _ => payload_v1(payload, &nk, None, None, version),
        };
        let signature = root.sign(&to_sign);
        RefSigner {
            token: WToken {
                root_key_id,
                authority: WBlock {
                    block: payload.to_vec(),
                    next_key: nk.to_wire(),
                    signature,
                    external: None,
                    version: if version == 0 { None } else { Some(version) },
                },
                blocks: vec![],
                proof: WProof::Secret(next.bytes()),
            },
            next_secret: next.clone(),
        }
    }

    pub fn last_signature(&self) -> Vec<u8> {
        self.token.blocks.last().unwrap_or(&self.token.authority).signature.clone()
    }

    pub fn append(&mut self, next: &RSecret, payload: &[u8], version: u64, external: Option<&RSecret>) {
        let nk = next.public();
        let prev = self.last_signature();
        let ext = external.map(|e| {
            let p = payload_external_v1(payload, &prev, 1);
            WExt {
                signature: e.sign(&p),
                public_key: e.public().to_wire(),
            }
        });
        let to_sign = match version {
            0 => payload_v0(payload, &nk, ext.as_ref().map(|e| e.signature.as_slice())),
            _ => payload_v1(payload, &nk, Some(&prev), ext.as_ref().map(|e| e.signature.as_slice()), version),
        };
        let signature = self.next_secret.sign(&to_sign);
        self.token.blocks.push(WBlock {
            block: payload.to_vec(),
            next_key: nk.to_wire(),
            signature,
            external: ext,
            version: if version == 0 { None } else { Some(version) },
        });
        self.token.proof = WProof::Secret(next.bytes());
        self.next_secret = next.clone();
    }

    pub fn seal(&mut self) {
        let last = self.token.blocks.last().unwrap_or(&self.token.authority).clone();
        let nk = self.next_secret.public();
        let p = payload_seal(&last.block, &nk, &last.signature);
        self.token.proof = WProof::Seal(self.next_secret.sign(&p));
    }

    pub fn bytes(&self) -> Vec<u8> {
        self.token.encode()
    }
}

/// normalised view without any signature verification (keys must parse)
pub fn view_unverified(t: &WToken) -> Result<TokenView, String> {
    let mut blocks = vec![];
    for blk in t.all_blocks() {
        let next = RKey::parse(&blk.next_key)?;
        let external = match &blk.external {
            None => None,
            Some(e) => {
                let k = RKey::parse(&e.public_key)?;
                Some((k.algorithm(), k.bytes(), e.signature.clone()))
            }
        };
        blocks.push(SignedBlockView {
            payload: blk.block.clone(),
            next_key_alg: next.algorithm(),
            next_key: next.bytes(),
            signature: blk.signature.clone(),
            external,
            version: blk.version_or_zero(),
        });
    }
    let proof = match &t.proof {
        WProof::Secret(s) => ProofView::Secret(s.clone()),
        WProof::Seal(s) => ProofView::Seal(s.clone()),
        WProof::Missing => return Err("missing proof".into()),
    };
    Ok(TokenView { blocks, proof })
}

pub fn rkey_of(pk: &biscuit_auth::PublicKey) -> RKey {
    let alg = match pk {
        biscuit_auth::PublicKey::Ed25519(_) => ALG_ED25519,
        biscuit_auth::PublicKey::P256(_) => ALG_P256,
    };
    RKey::parse(&WKey {
        algorithm: alg,
        key: pk.to_bytes(),
    })
    .expect("library public key parses")
}
