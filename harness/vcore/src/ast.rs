//! plain-data Datalog AST used by generators and reference models, with conversions to and
//! from the library's builder types
use biscuit_auth::builder as b;
use biscuit_auth::PublicKey;
use serde::{Deserialize, Serialize};
use std::collections::{BTreeMap, BTreeSet};

#[derive(Clone, Debug, PartialEq, Eq, PartialOrd, Ord, Hash, Serialize, Deserialize)]
pub enum Term {
    Var(String),
    Int(i64),
    Str(String),
    Date(u64),
    Bytes(Vec<u8>),
    Bool(bool),
    Null,
    Set(BTreeSet<Term>),
    Array(Vec<Term>),
    Map(#[serde(with = "map_pairs")] BTreeMap<MapKey, Term>),
    Param(String),
}

/// JSON object keys must be strings: maps are serialised as lists of pairs
mod map_pairs {
    use super::{MapKey, Term};
    use serde::{Deserialize, Deserializer, Serialize, Serializer};
    use std::collections::BTreeMap;

    pub fn serialize<S: Serializer>(m: &BTreeMap<MapKey, Term>, s: S) -> Result<S::Ok, S::Error> {
        let v: Vec<(&MapKey, &Term)> = m.iter().collect();
        v.serialize(s)
    }

    pub fn deserialize<'de, D: Deserializer<'de>>(d: D) -> Result<BTreeMap<MapKey, Term>, D::Error> {
        let v: Vec<(MapKey, Term)> = Vec::deserialize(d)?;
        Ok(v.into_iter().collect())
    }
}

#[derive(Clone, Debug, PartialEq, Eq, PartialOrd, Ord, Hash, Serialize, Deserialize)]
pub enum MapKey {
    Int(i64),
    Str(String),
    Param(String),
}

impl Term {
    pub fn s(x: &str) -> Term {
        Term::Str(x.to_string())
    }
    pub fn v(x: &str) -> Term {
        Term::Var(x.to_string())
    }
    pub fn is_ground(&self) -> bool {
        match self {
            Term::Var(_) | Term::Param(_) => false,
            Term::Set(s) => s.iter().all(|t| t.is_ground()),
            Term::Array(a) => a.iter().all(|t| t.is_ground()),
            Term::Map(m) => m.iter().all(|(k, t)| !matches!(k, MapKey::Param(_)) && t.is_ground()),
            _ => true,
        }
    }
    pub fn type_name(&self) -> &'static str {
        match self {
            Term::Var(_) => "variable",
            Term::Int(_) => "integer",
            Term::Str(_) => "string",
            Term::Date(_) => "date",
            Term::Bytes(_) => "bytes",
            Term::Bool(_) => "bool",
            Term::Null => "null",
            Term::Set(_) => "set",
            Term::Array(_) => "array",
            Term::Map(_) => "map",
            Term::Param(_) => "parameter",
        }
    }
    pub fn depth(&self) -> usize {
        match self {
            Term::Set(s) => 1 + s.iter().map(|t| t.depth()).max().unwrap_or(0),
            Term::Array(s) => 1 + s.iter().map(|t| t.depth()).max().unwrap_or(0),
            Term::Map(s) => 1 + s.values().map(|t| t.depth()).max().unwrap_or(0),
            _ => 0,
        }
    }
    pub fn visit(&self, f: &mut dyn FnMut(&Term)) {
        f(self);
        match self {
            Term::Set(s) => s.iter().for_each(|t| t.visit(f)),
            Term::Array(s) => s.iter().for_each(|t| t.visit(f)),
            Term::Map(s) => s.values().for_each(|t| t.visit(f)),
            _ => {}
        }
    }
    pub fn strings(&self, out: &mut Vec<String>) {
        match self {
            Term::Str(s) => out.push(s.clone()),
            Term::Set(s) => s.iter().for_each(|t| t.strings(out)),
            Term::Array(s) => s.iter().for_each(|t| t.strings(out)),
            Term::Map(m) => {
                for (k, v) in m {
                    if let MapKey::Str(s) = k {
                        out.push(s.clone());
                    }
                    v.strings(out);
                }
            }
            _ => {}
        }
    }
}

#[derive(Clone, Debug, PartialEq, Eq, PartialOrd, Ord, Hash, Serialize, Deserialize)]
pub struct Pred {
    pub name: String,
    pub terms: Vec<Term>,
}

impl Pred {
    pub fn new(name: &str, terms: Vec<Term>) -> Pred {
        Pred {
            name: name.to_string(),
            terms,
        }
    }
}

#[derive(Clone, Debug, PartialEq, Eq, PartialOrd, Ord, Hash, Serialize, Deserialize)]
pub enum Un {
    Negate,
    Parens,
    Length,
    TypeOf,
    Ffi(String),
}

#[derive(Clone, Debug, PartialEq, Eq, PartialOrd, Ord, Hash, Serialize, Deserialize)]
pub enum Bin {
    LessThan,
    GreaterThan,
    LessOrEqual,
    GreaterOrEqual,
    Equal,
    Contains,
    Prefix,
    Suffix,
    Regex,
    Add,
    Sub,
    Mul,
    Div,
    And,
    Or,
    Intersection,
    Union,
    BitwiseAnd,
    BitwiseOr,
    BitwiseXor,
    NotEqual,
    HeterogeneousEqual,
    HeterogeneousNotEqual,
    LazyAnd,
    LazyOr,
    All,
    Any,
    Get,
    Ffi(String),
}

pub const ALL_BIN: &[Bin] = &[
    Bin::LessThan,
    Bin::GreaterThan,
    Bin::LessOrEqual,
    Bin::GreaterOrEqual,
    Bin::Equal,
    Bin::Contains,
    Bin::Prefix,
    Bin::Suffix,
    Bin::Regex,
    Bin::Add,
    Bin::Sub,
    Bin::Mul,
    Bin::Div,
    Bin::And,
    Bin::Or,
    Bin::Intersection,
    Bin::Union,
    Bin::BitwiseAnd,
    Bin::BitwiseOr,
    Bin::BitwiseXor,
    Bin::NotEqual,
    Bin::HeterogeneousEqual,
    Bin::HeterogeneousNotEqual,
    Bin::LazyAnd,
    Bin::LazyOr,
    Bin::All,
    Bin::Any,
    Bin::Get,
];

pub const ALL_UN: &[Un] = &[Un::Negate, Un::Parens, Un::Length, Un::TypeOf];

#[derive(Clone, Debug, PartialEq, Eq, PartialOrd, Ord, Hash, Serialize, Deserialize)]
pub enum Op {
    Value(Term),
    Unary(Un),
    Binary(Bin),
    Closure(Vec<String>, Vec<Op>),
}

#[derive(Clone, Debug, PartialEq, Eq, PartialOrd, Ord, Hash, Serialize, Deserialize)]
pub struct Expr {
    pub ops: Vec<Op>,
}

/// Scope; keys are referenced by index into the case's key pool
#[derive(Clone, Debug, PartialEq, Eq, PartialOrd, Ord, Hash, Serialize, Deserialize)]
pub enum Scope {
    Authority,
    Previous,
    Key(usize),
    Param(String),
}

#[derive(Clone, Debug, PartialEq, Eq, PartialOrd, Ord, Hash, Serialize, Deserialize)]
pub struct Rule {
    pub head: Pred,
    pub body: Vec<Pred>,
    pub exprs: Vec<Expr>,
    pub scopes: Vec<Scope>,
}

impl Rule {
    pub fn query(body: Vec<Pred>, exprs: Vec<Expr>, scopes: Vec<Scope>) -> Rule {
        Rule {
            head: Pred::new("query", vec![]),
            body,
            exprs,
            scopes,
        }
    }
}

#[derive(Clone, Copy, Debug, PartialEq, Eq, PartialOrd, Ord, Hash, Serialize, Deserialize)]
pub enum CheckKind {
    One,
    All,
    Reject,
}

#[derive(Clone, Debug, PartialEq, Eq, PartialOrd, Ord, Hash, Serialize, Deserialize)]
pub struct Check {
    pub kind: CheckKind,
    pub queries: Vec<Rule>,
}

#[derive(Clone, Debug, PartialEq, Eq, PartialOrd, Ord, Hash, Serialize, Deserialize)]
pub struct Policy {
    pub allow: bool,
    pub queries: Vec<Rule>,
}

#[derive(Clone, Debug, Default, PartialEq, Eq, PartialOrd, Ord, Hash, Serialize, Deserialize)]
pub struct Block {
    pub facts: Vec<Pred>,
    pub rules: Vec<Rule>,
    pub checks: Vec<Check>,
    pub scopes: Vec<Scope>,
    pub context: Option<String>,
}

#[derive(Clone, Debug, Default, PartialEq, Eq, PartialOrd, Ord, Hash, Serialize, Deserialize)]
pub struct AuthorizerAst {
    pub block: Block,
    pub policies: Vec<Policy>,
}

// ---------------------------------------------------------------------------------------------
// conversions to the library's builder types
// ---------------------------------------------------------------------------------------------

pub trait KeyResolver {
    fn key(&self, idx: usize) -> PublicKey;
    fn index_of(&self, key: &PublicKey) -> Option<usize>;
}

impl KeyResolver for Vec<PublicKey> {
    fn key(&self, idx: usize) -> PublicKey {
        self[idx % self.len()]
    }
    fn index_of(&self, key: &PublicKey) -> Option<usize> {
        self.iter().position(|k| k == key)
    }
}

impl KeyResolver for [PublicKey] {
    fn key(&self, idx: usize) -> PublicKey {
        self[idx % self.len()]
    }
    fn index_of(&self, key: &PublicKey) -> Option<usize> {
        self.iter().position(|k| k == key)
    }
}

impl Term {
    pub fn to_b(&self) -> b::Term {
        match self {
            Term::Var(s) => b::Term::Variable(s.clone()),
            Term::Int(i) => b::Term::Integer(*i),
            Term::Str(s) => b::Term::Str(s.clone()),
            Term::Date(d) => b::Term::Date(*d),
            Term::Bytes(x) => b::Term::Bytes(x.clone()),
            Term::Bool(x) => b::Term::Bool(*x),
            Term::Null => b::Term::Null,
            Term::Set(s) => b::Term::Set(s.iter().map(|t| t.to_b()).collect()),
            Term::Array(a) => b::Term::Array(a.iter().map(|t| t.to_b()).collect()),
            Term::Map(m) => b::Term::Map(
                m.iter()
                    .map(|(k, v)| {
                        (
                            match k {
                                MapKey::Int(i) => b::MapKey::Integer(*i),
                                MapKey::Str(s) => b::MapKey::Str(s.clone()),
                                MapKey::Param(s) => b::MapKey::Parameter(s.clone()),
                            },
                            v.to_b(),
                        )
                    })
                    .collect(),
            ),
            Term::Param(p) => b::Term::Parameter(p.clone()),
        }
    }

    pub fn from_b(t: &b::Term) -> Term {
        match t {
            b::Term::Variable(s) => Term::Var(s.clone()),
            b::Term::Integer(i) => Term::Int(*i),
            b::Term::Str(s) => Term::Str(s.clone()),
            b::Term::Date(d) => Term::Date(*d),
            b::Term::Bytes(x) => Term::Bytes(x.clone()),
            b::Term::Bool(x) => Term::Bool(*x),
            b::Term::Null => Term::Null,
            b::Term::Set(s) => Term::Set(s.iter().map(Term::from_b).collect()),
            b::Term::Array(a) => Term::Array(a.iter().map(Term::from_b).collect()),
            b::Term::Map(m) => Term::Map(
                m.iter()
                    .map(|(k, v)| {
                        (
                            match k {
                                b::MapKey::Integer(i) => MapKey::Int(*i),
                                b::MapKey::Str(s) => MapKey::Str(s.clone()),
                                b::MapKey::Parameter(s) => MapKey::Param(s.clone()),
                            },
                            Term::from_b(v),
                        )
                    })
                    .collect(),
            ),
            b::Term::Parameter(p) => Term::Param(p.clone()),
        }
    }
}

impl Pred {
    pub fn to_b(&self) -> b::Predicate {
        b::Predicate::new(self.name.clone(), self.terms.iter().map(|t| t.to_b()).collect::<Vec<_>>())
    }
    pub fn to_fact(&self) -> b::Fact {
        b::Fact::new(self.name.clone(), self.terms.iter().map(|t| t.to_b()).collect::<Vec<_>>())
    }
    pub fn from_b(p: &b::Predicate) -> Pred {
        Pred {
            name: p.name.clone(),
            terms: p.terms.iter().map(Term::from_b).collect(),
        }
    }
}

impl Un {
    pub fn to_b(&self) -> b::Unary {
        match self {
            Un::Negate => b::Unary::Negate,
            Un::Parens => b::Unary::Parens,
            Un::Length => b::Unary::Length,
            Un::TypeOf => b::Unary::TypeOf,
            Un::Ffi(n) => b::Unary::Ffi(n.clone()),
        }
    }
    pub fn from_b(u: &b::Unary) -> Un {
        match u {
            b::Unary::Negate => Un::Negate,
            b::Unary::Parens => Un::Parens,
            b::Unary::Length => Un::Length,
            b::Unary::TypeOf => Un::TypeOf,
            b::Unary::Ffi(n) => Un::Ffi(n.clone()),
        }
    }
}

impl Bin {
    pub fn to_b(&self) -> b::Binary {
        match self {
            Bin::LessThan => b::Binary::LessThan,
            Bin::GreaterThan => b::Binary::GreaterThan,
            Bin::LessOrEqual => b::Binary::LessOrEqual,
            Bin::GreaterOrEqual => b::Binary::GreaterOrEqual,
            Bin::Equal => b::Binary::Equal,
            Bin::Contains => b::Binary::Contains,
            Bin::Prefix => b::Binary::Prefix,
            Bin::Suffix => b::Binary::Suffix,
            Bin::Regex => b::Binary::Regex,
            Bin::Add => b::Binary::Add,
            Bin::Sub => b::Binary::Sub,
            Bin::Mul => b::Binary::Mul,
            Bin::Div => b::Binary::Div,
            Bin::And => b::Binary::And,
            Bin::Or => b::Binary::Or,
            Bin::Intersection => b::Binary::Intersection,
            Bin::Union => b::Binary::Union,
            Bin::BitwiseAnd => b::Binary::BitwiseAnd,
            Bin::BitwiseOr => b::Binary::BitwiseOr,
            Bin::BitwiseXor => b::Binary::BitwiseXor,
            Bin::NotEqual => b::Binary::NotEqual,
            Bin::HeterogeneousEqual => b::Binary::HeterogeneousEqual,
            Bin::HeterogeneousNotEqual => b::Binary::HeterogeneousNotEqual,
            Bin::LazyAnd => b::Binary::LazyAnd,
            Bin::LazyOr => b::Binary::LazyOr,
            Bin::All => b::Binary::All,
            Bin::Any => b::Binary::Any,
            Bin::Get => b::Binary::Get,
            Bin::Ffi(n) => b::Binary::Ffi(n.clone()),
        }
    }
    pub fn from_b(x: &b::Binary) -> Bin {
        match x {
            b::Binary::LessThan => Bin::LessThan,
            b::Binary::GreaterThan => Bin::GreaterThan,
            b::Binary::LessOrEqual => Bin::LessOrEqual,
            b::Binary::GreaterOrEqual => Bin::GreaterOrEqual,
            b::Binary::Equal => Bin::Equal,
            b::Binary::Contains => Bin::Contains,
            b::Binary::Prefix => Bin::Prefix,
            b::Binary::Suffix => Bin::Suffix,
            b::Binary::Regex => Bin::Regex,
            b::Binary::Add => Bin::Add,
            b::Binary::Sub => Bin::Sub,
            b::Binary::Mul => Bin::Mul,
            b::Binary::Div => Bin::Div,
            b::Binary::And => Bin::And,
            b::Binary::Or => Bin::Or,
            b::Binary::Intersection => Bin::Intersection,
            b::Binary::Union => Bin::Union,
            b::Binary::BitwiseAnd => Bin::BitwiseAnd,
            b::Binary::BitwiseOr => Bin::BitwiseOr,
            b::Binary::BitwiseXor => Bin::BitwiseXor,
            b::Binary::NotEqual => Bin::NotEqual,
            b::Binary::HeterogeneousEqual => Bin::HeterogeneousEqual,
            b::Binary::HeterogeneousNotEqual => Bin::HeterogeneousNotEqual,
            b::Binary::LazyAnd => Bin::LazyAnd,
            b::Binary::LazyOr => Bin::LazyOr,
            b::Binary::All => Bin::All,
            b::Binary::Any => Bin::Any,
            b::Binary::Get => Bin::Get,
            b::Binary::Ffi(n) => Bin::Ffi(n.clone()),
        }
    }
}

impl Op {
    pub fn to_b(&self) -> b::Op {
        match self {
            Op::Value(t) => b::Op::Value(t.to_b()),
            Op::Unary(u) => b::Op::Unary(u.to_b()),
            Op::Binary(x) => b::Op::Binary(x.to_b()),
            Op::Closure(p, ops) => b::Op::Closure(p.clone(), ops.iter().map(|o| o.to_b()).collect()),
        }
    }
    pub fn from_b(o: &b::Op) -> Op {
        match o {
            b::Op::Value(t) => Op::Value(Term::from_b(t)),
            b::Op::Unary(u) => Op::Unary(Un::from_b(u)),
            b::Op::Binary(x) => Op::Binary(Bin::from_b(x)),
            b::Op::Closure(p, ops) => Op::Closure(p.clone(), ops.iter().map(Op::from_b).collect()),
        }
    }
}

impl Expr {
    pub fn to_b(&self) -> b::Expression {
        b::Expression {
            ops: self.ops.iter().map(|o| o.to_b()).collect(),
        }
    }
    pub fn from_b(e: &b::Expression) -> Expr {
        Expr {
            ops: e.ops.iter().map(Op::from_b).collect(),
        }
    }
}

impl Scope {
    pub fn to_b(&self, keys: &dyn KeyResolver) -> b::Scope {
        match self {
            Scope::Authority => b::Scope::Authority,
            Scope::Previous => b::Scope::Previous,
            Scope::Key(i) => b::Scope::PublicKey(keys.key(*i)),
            Scope::Param(p) => b::Scope::Parameter(p.clone()),
        }
    }
    /// keys not in the pool map to Key(usize::MAX)
    pub fn from_b(s: &b::Scope, keys: &dyn KeyResolver) -> Scope {
        match s {
            b::Scope::Authority => Scope::Authority,
            b::Scope::Previous => Scope::Previous,
            b::Scope::PublicKey(k) => Scope::Key(keys.index_of(k).unwrap_or(usize::MAX)),
            b::Scope::Parameter(p) => Scope::Param(p.clone()),
        }
    }
}

impl Rule {
    pub fn to_b(&self, keys: &dyn KeyResolver) -> b::Rule {
        b::Rule::new(
            self.head.to_b(),
            self.body.iter().map(|p| p.to_b()).collect(),
            self.exprs.iter().map(|e| e.to_b()).collect(),
            self.scopes.iter().map(|s| s.to_b(keys)).collect(),
        )
    }
    pub fn from_b(r: &b::Rule, keys: &dyn KeyResolver) -> Rule {
        Rule {
            head: Pred::from_b(&r.head),
            body: r.body.iter().map(Pred::from_b).collect(),
            exprs: r.expressions.iter().map(Expr::from_b).collect(),
            scopes: r.scopes.iter().map(|s| Scope::from_b(s, keys)).collect(),
        }
    }
}

impl CheckKind {
    pub fn to_b(&self) -> b::CheckKind {
        match self {
            CheckKind::One => b::CheckKind::One,
            CheckKind::All => b::CheckKind::All,
            CheckKind::Reject => b::CheckKind::Reject,
        }
    }
    pub fn from_b(k: &b::CheckKind) -> CheckKind {
        match k {
            b::CheckKind::One => CheckKind::One,
            b::CheckKind::All => CheckKind::All,
            b::CheckKind::Reject => CheckKind::Reject,
        }
    }
}

impl Check {
    pub fn to_b(&self, keys: &dyn KeyResolver) -> b::Check {
        b::Check {
            queries: self.queries.iter().map(|q| q.to_b(keys)).collect(),
            kind: self.kind.to_b(),
        }
    }
    pub fn from_b(c: &b::Check, keys: &dyn KeyResolver) -> Check {
        Check {
            kind: CheckKind::from_b(&c.kind),
            queries: c.queries.iter().map(|q| Rule::from_b(q, keys)).collect(),
        }
    }
}

impl Policy {
    pub fn to_b(&self, keys: &dyn KeyResolver) -> b::Policy {
        b::Policy {
            queries: self.queries.iter().map(|q| q.to_b(keys)).collect(),
            kind: if self.allow {
                b::PolicyKind::Allow
            } else {
                b::PolicyKind::Deny
            },
        }
    }
    pub fn from_b(c: &b::Policy, keys: &dyn KeyResolver) -> Policy {
        Policy {
            allow: matches!(c.kind, b::PolicyKind::Allow),
            queries: c.queries.iter().map(|q| Rule::from_b(q, keys)).collect(),
        }
    }
}

impl Block {
    /// build a BlockBuilder through the structured API (no text)
    pub fn to_builder(&self, keys: &dyn KeyResolver) -> Result<b::BlockBuilder, biscuit_auth::error::Token> {
        let mut bb = b::BlockBuilder::new();
        for f in &self.facts {
            bb = bb.fact(f.to_fact())?;
        }
        for r in &self.rules {
            bb = bb.rule(r.to_b(keys))?;
        }
        for c in &self.checks {
            bb = bb.check(c.to_b(keys))?;
        }
        for s in &self.scopes {
            bb = bb.scope(s.to_b(keys));
        }
        if let Some(c) = &self.context {
            bb = bb.context(c.clone());
        }
        Ok(bb)
    }

    pub fn to_biscuit_builder(&self, keys: &dyn KeyResolver) -> Result<b::BiscuitBuilder, biscuit_auth::error::Token> {
        let mut bb = b::BiscuitBuilder::new();
        for f in &self.facts {
            bb = bb.fact(f.to_fact())?;
        }
        for r in &self.rules {
            bb = bb.rule(r.to_b(keys))?;
        }
        for c in &self.checks {
            bb = bb.check(c.to_b(keys))?;
        }
        for s in &self.scopes {
            bb = bb.scope(s.to_b(keys));
        }
        if let Some(c) = &self.context {
            bb = bb.context(c.clone());
        }
        Ok(bb)
    }

    pub fn from_builder(bb: &b::BlockBuilder, keys: &dyn KeyResolver) -> Block {
        Block {
            facts: bb.facts.iter().map(|f| Pred::from_b(&f.predicate)).collect(),
            rules: bb.rules.iter().map(|r| Rule::from_b(r, keys)).collect(),
            checks: bb.checks.iter().map(|c| Check::from_b(c, keys)).collect(),
            scopes: bb.scopes.iter().map(|s| Scope::from_b(s, keys)).collect(),
            context: bb.context.clone(),
        }
    }

    pub fn all_rules(&self) -> impl Iterator<Item = &Rule> {
        self.rules
            .iter()
            .chain(self.checks.iter().flat_map(|c| c.queries.iter()))
    }
}

impl AuthorizerAst {
    pub fn to_builder(&self, keys: &dyn KeyResolver) -> Result<b::AuthorizerBuilder, biscuit_auth::error::Token> {
        let mut ab = b::AuthorizerBuilder::new();
        for f in &self.block.facts {
            ab = ab.fact(f.to_fact())?;
        }
        for r in &self.block.rules {
            ab = ab.rule(r.to_b(keys))?;
        }
        for c in &self.block.checks {
            ab = ab.check(c.to_b(keys))?;
        }
        for s in &self.block.scopes {
            ab = ab.scope(s.to_b(keys));
        }
        for p in &self.policies {
            ab = ab.policy(p.to_b(keys))?;
        }
        Ok(ab)
    }
}
