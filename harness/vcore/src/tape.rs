//! choice tape: all structure decisions of the hand-written generators read from a vector of
//! u16 produced (and shrunk) by proptest. Exhausted tape = 0 = the simplest alternative.
use proptest::prelude::*;
use proptest::strategy::BoxedStrategy;

#[derive(Clone, Debug)]
pub struct Tape {
    data: Vec<u16>,
    pos: usize,
}

impl Tape {
    pub fn new(data: Vec<u16>) -> Tape {
        Tape { data, pos: 0 }
    }
    pub fn raw(&mut self) -> u16 {
        let v = self.data.get(self.pos).copied().unwrap_or(0);
        self.pos += 1;
        v
    }
    pub fn exhausted(&self) -> bool {
        self.pos >= self.data.len()
    }
    /// uniform-ish choice in 0..n, monotone in the tape value (0 -> 0)
    pub fn pick(&mut self, n: usize) -> usize {
        if n <= 1 {
            // still consume, keeps alignment stable across alternatives
            self.raw();
            return 0;
        }
        ((self.raw() as usize) * n) >> 16
    }
    /// true with probability num/den; false on exhausted tape
    pub fn chance(&mut self, num: u32, den: u32) -> bool {
        let v = self.raw() as u32;
        // high values -> true, so that 0 -> false
        v >= 65536 - (65536 * num / den).min(65536)
    }
    pub fn range(&mut self, lo: usize, hi_incl: usize) -> usize {
        lo + self.pick(hi_incl - lo + 1)
    }
    pub fn u64(&mut self) -> u64 {
        let a = self.raw() as u64;
        let b = self.raw() as u64;
        let c = self.raw() as u64;
        let d = self.raw() as u64;
        a | (b << 16) | (c << 32) | (d << 48)
    }
    pub fn choose<'a, T>(&mut self, xs: &'a [T]) -> &'a T {
        let i = self.pick(xs.len());
        &xs[i]
    }
    /// weighted choice, weights need not be normalised; index 0 is the "simplest"
    pub fn weighted(&mut self, weights: &[u32]) -> usize {
        let total: u32 = weights.iter().sum();
        if total == 0 {
            self.raw();
            return 0;
        }
        let r = ((self.raw() as u64) * (total as u64)) >> 16;
        let mut acc = 0u64;
        for (i, w) in weights.iter().enumerate() {
            acc += *w as u64;
            if r < acc {
                return i;
            }
        }
        weights.len() - 1
    }
    pub fn bytes(&mut self, max: usize) -> Vec<u8> {
        let n = self.pick(max + 1);
        (0..n).map(|_| self.raw() as u8).collect()
    }
}

/// strategy producing tapes of up to `max` entries
pub fn tape_strategy(max: usize) -> BoxedStrategy<Vec<u16>> {
    proptest::collection::vec(any::<u16>(), 0..max).boxed()
}

/// build a strategy from a generator function over a tape
pub fn from_tape<C, F>(max: usize, f: F) -> BoxedStrategy<C>
where
    C: std::fmt::Debug + Clone + 'static,
    F: Fn(&mut Tape) -> C + 'static,
{
    tape_strategy(max)
        .prop_map(move |data| {
            let mut t = Tape::new(data);
            f(&mut t)
        })
        .boxed()
}
