//! C03 - attenuation can only restrict: appended blocks never grant access
use crate::c04::{lib_query, show_case};
use serde::{Deserialize, Serialize};
use serde_json::json;
use std::collections::{BTreeMap, BTreeSet};
use vcore::ast::*;
use vcore::authz::*;
use vcore::gen::*;
use vcore::runner::{Ctx, Report, Violation};
use vcore::tape::{from_tape, Tape};
use vcore::tokens::*;
use vcore::util::{guard, hash64};

#[derive(Clone, Debug, Serialize, Deserialize)]
pub struct Case {
    pub plan: TokenPlan,
    pub authorizer: AuthorizerAst,
    /// the appended block; its external key (if third party) is the last key of the pool, which
    /// no scope of the token or the authorizer can name
    pub ext: Step,
    pub probes: Vec<Rule>,
}

fn v(sig: &str, detail: String) -> Violation {
    Violation::new(sig, detail)
}

pub fn gen_case(t: &mut Tape, cfg: &GenCfg) -> Case {
    let mut cfg = cfg.clone();
    cfg.sigs = gen_sig_subset(t);
    let mut plan = gen_token_plan(t, &cfg, 2);
    plan.seal = false;
    // dedicated key for the new block, outside the range scopes are drawn from
    plan.keys.push(gen_key(t, 200));
    let new_key_idx = plan.keys.len() - 1;
    let authorizer = gen_authorizer(t, &cfg);
    // the adversarial block: may use every scope incl. its own key, untyped expressions
    let mut bcfg = cfg.clone();
    bcfg.n_keys = plan.keys.len();
    bcfg.typed = t.chance(2, 3);
    bcfg.max_facts = 5;
    let mut block = gen_block(t, &bcfg);
    // make it grant-hungry: copy predicates looked for by checks and policies as facts
    let wanted: Vec<Pred> = plan
        .authority
        .all_rules()
        .chain(plan.steps.iter().flat_map(|s| s.block().all_rules()))
        .chain(authorizer.block.all_rules())
        .chain(authorizer.policies.iter().flat_map(|p| p.queries.iter()))
        .flat_map(|r| r.body.iter().cloned())
        .collect();
    for p in wanted.iter().take(4) {
        if t.chance(2, 3) {
            let terms = p
                .terms
                .iter()
                .map(|x| match x {
                    Term::Var(name) => gen_const(t, var_type(name).unwrap_or(Ty::Int), &cfg),
                    c => c.clone(),
                })
                .collect();
            block.facts.push(Pred {
                name: p.name.clone(),
                terms,
            });
        }
    }
    let next = gen_key(t, 201);
    let ext = if t.chance(1, 2) {
        Step::Third {
            block,
            ext: new_key_idx,
            next,
        }
    } else {
        Step::First { block, next }
    };
    let np = t.range(1, 2);
    let probes = (0..np).map(|_| gen_rule(t, &cfg)).collect();
    Case {
        plan,
        authorizer,
        ext,
        probes,
    }
}

/// facts per origin as printed by the authorizer ("// origin: 0, authorizer"); kept for
/// diagnostics only: printed collections depend on symbol interning order
#[allow(dead_code)]
fn world_by_origin(a: &biscuit_auth::Authorizer) -> BTreeMap<String, BTreeSet<String>> {
    let text = a.to_string();
    let mut m: BTreeMap<String, BTreeSet<String>> = BTreeMap::new();
    let mut in_facts = false;
    let mut cur = String::new();
    for line in text.lines() {
        if line.starts_with("// Facts:") {
            in_facts = true;
            continue;
        }
        if line.starts_with("// Rules:") || line.starts_with("// Checks:") || line.starts_with("// Policies:") {
            in_facts = false;
        }
        if !in_facts {
            continue;
        }
        if let Some(o) = line.strip_prefix("// origin: ") {
            cur = o.trim().to_string();
        } else if !line.trim().is_empty() {
            m.entry(cur.clone()).or_default().insert(line.to_string());
        }
    }
    m
}

#[allow(dead_code)]
fn origin_has(o: &str, id: usize) -> bool {
    o.split(',').any(|x| x.trim() == id.to_string())
}

pub fn test_case(case: &Case, rep: &mut Report) -> Result<(), Violation> {
    let plan = &case.plan;
    let pubs = plan.publics();
    let t1 = match guard(|| build_token(plan)) {
        Ok(Ok(t)) => t,
        Ok(Err(e)) => return Err(v("api-build-error", format!("{e:?}"))),
        Err(p) => return Err(v(&format!("panic:{}", p.site()), p.message)),
    };
    let t2 = match guard(|| apply_step(&t1, plan, &case.ext)) {
        Ok(Ok(t)) => t,
        Ok(Err(_)) => {
            rep.class("extension_refused_by_api");
            return Ok(());
        }
        Err(p) => return Err(v(&format!("panic:{}", p.site()), format!("append: {}", p.message))),
    };
    // what a verifier sees
    let t2 = match biscuit_auth::Biscuit::from(t2.to_vec().map_err(|e| v("to_vec-error", format!("{e:?}")))?, plan.root.public()) {
        Ok(t) => t,
        Err(_) => {
            rep.class("extension_refused_at_reload");
            return Ok(());
        }
    };
    let new_id = plan.block_count();
    let r1 = authorize(Some(&t1), &case.authorizer, &pubs);
    let r2 = authorize(Some(&t2), &case.authorizer, &pubs);
    rep.class(format!("r1:{}", class_of(&r1)));
    rep.class(format!("r2:{}", class_of(&r2)));
    rep.class(if case.ext.is_third() { "ext:third_party" } else { "ext:first_party" });
    let looked_for: BTreeSet<String> = (0..plan.block_count())
        .flat_map(|i| plan.block(i).all_rules())
        .chain(case.authorizer.block.all_rules())
        .chain(case.authorizer.policies.iter().flat_map(|p| p.queries.iter()))
        .flat_map(|r| r.body.iter().map(|p| p.name.clone()))
        .collect();
    let b = case.ext.block();
    let grants = b.facts.iter().any(|f| looked_for.contains(&f.name)) || b.rules.iter().any(|r| looked_for.contains(&r.head.name));
    if grants {
        rep.nontrivial(hash64(&(plan, &case.authorizer, &case.ext)));
    }
    let as_case = crate::c04::Case {
        plan: plan.clone(),
        authorizer: case.authorizer.clone(),
        probes: vec![],
    };
    let mut shown = show_case(&as_case);
    shown["appended"] = json!(format!(
        "{} {:?}",
        if case.ext.is_third() { "third-party" } else { "first-party" },
        b.to_builder(&pubs).map(|x| x.to_string().replace('\n', " ")).unwrap_or_default()
    ));
    shown["appended_scopes"] = json!(format!("{:?}", b.scopes));
    rep.sample(shown.clone());
    let ctx_s = || format!("original: {:?}\nextended: {:?}\n{}", r1, r2, serde_json::to_string_pretty(&shown).unwrap());

    if let Outcome::Panic(p) = &r2 {
        return Err(v("panic-in-authorize", format!("{p}\n{}", ctx_s())));
    }
    if !r1.is_logic() {
        rep.excluded += 1;
        rep.class("excluded:original_not_a_logic_outcome");
        return Ok(());
    }
    // (1) accepted extended => accepted original by the same policy
    if let Outcome::Allow(i) = &r2 {
        if r1 != Outcome::Allow(*i) {
            return Err(v("attenuation-granted-access", ctx_s()));
        }
    }
    // the same two requirements when the authorizer of the extended token went through a
    // snapshot before deciding (a verifier may well store and reload it)
    if let Ok(a) = build_authorizer(Some(&t2), &case.authorizer, &pubs, big_limits()) {
        let restored = guard(|| a.to_raw_snapshot().ok().and_then(|s| biscuit_auth::Authorizer::from_raw_snapshot(&s).ok()).map(|mut r| vcore::authz::normalize(r.authorize())));
        if let Ok(Some(r2s)) = restored {
            rep.class("extended_token_through_snapshot");
            if let Outcome::Allow(i) = &r2s {
                if r1 != Outcome::Allow(*i) {
                    return Err(v("attenuation-granted-access:after-snapshot-restore", format!("after snapshot and restore: {:?}\n{}", r2s, ctx_s())));
                }
            }
            if r2s.is_logic() {
                for f in &r1.failed() {
                    if !r2s.failed().contains(f) {
                        return Err(v("attenuation-repaired-a-failed-check:after-snapshot-restore", format!("after snapshot and restore: {:?}\n{}", r2s, ctx_s())));
                    }
                }
            }
        }
    }
    if r2.is_logic() {
        // (2) every failed check of the original still fails
        let f1 = r1.failed();
        let f2 = r2.failed();
        for f in &f1 {
            if !f2.contains(f) {
                return Err(v("attenuation-repaired-a-failed-check", ctx_s()));
            }
        }
        // checks of old blocks that now fail although they passed: the new block changed what an
        // earlier block or the authorizer sees
        for f in &f2 {
            if f.0 != Some(new_id as u32) && !f1.contains(f) {
                return Err(v("attenuation-changed-earlier-check", ctx_s()));
            }
        }
        // (3) same matched policy
        let p1 = match &r1 {
            Outcome::Allow(i) => Some((true, *i)),
            Outcome::Refused { policy, .. } => *policy,
            _ => None,
        };
        let p2 = match &r2 {
            Outcome::Allow(i) => Some((true, *i)),
            Outcome::Refused { policy, .. } => *policy,
            _ => None,
        };
        if p1 != p2 {
            return Err(v("attenuation-changed-matched-policy", ctx_s()));
        }
    }
    // (4) the world outside the new block's origin is unchanged, and default-scope queries agree
    let a1 = build_authorizer(Some(&t1), &case.authorizer, &pubs, big_limits());
    let a2 = build_authorizer(Some(&t2), &case.authorizer, &pubs, big_limits());
    if let (Ok(mut a1), Ok(mut a2)) = (a1, a2) {
        let ok1 = guard(|| a1.run().is_ok()).unwrap_or(false);
        let ok2 = guard(|| a2.run().is_ok()).unwrap_or(false);
        if ok1 && ok2 {
            let (w1, mut w2) = match (world_of(&a1), world_of(&a2)) {
                (Ok(a), Ok(b)) => (a, b),
                (a, b) => {
                    return Err(v(
                        "snapshot-failed",
                        format!("{:?} / {:?}\n{}", a.err(), b.err(), ctx_s()),
                    ))
                }
            };
            w2.retain(|o, _| !o.contains(&new_id));
            if w1 != w2 {
                return Err(v(
                    "attenuation-changed-facts-of-other-origins",
                    format!("world of the original:\n{:?}\nworld of the extended token without origin {new_id}:\n{:?}\n{}", w1, w2, ctx_s()),
                ));
            }
            for (k, probe) in case.probes.iter().enumerate() {
                rep.evals(1);
                let q1 = lib_query(&mut a1, probe, &pubs, false);
                let q2 = lib_query(&mut a2, probe, &pubs, false);
                if let (Ok(q1), Ok(q2)) = (&q1, &q2) {
                    if q1 != q2 {
                        return Err(v(
                            "attenuation-changed-default-scope-query",
                            format!("probe {k} {:?}: {:?} vs {:?}\n{}", probe, q1, q2, ctx_s()),
                        ));
                    }
                }
            }
        }
    }
    Ok(())
}

fn class_of(o: &Outcome) -> &'static str {
    match o {
        Outcome::Allow(_) => "allow",
        Outcome::Refused { .. } => "refused",
        Outcome::ExecError(_) => "exec_error",
        Outcome::RunLimit(_) => "run_limit",
        Outcome::BuildError(_) => "build_error",
        Outcome::OtherError(_) => "other_error",
        Outcome::Panic(_) => "panic",
    }
}

pub fn run(ctx: &Ctx, replay: Option<&serde_json::Value>) {
    if let Some(r) = replay {
        let case: Case = serde_json::from_value(r["case"].clone()).expect("bad replay case");
        ctx.run_list("triples", &[case], test_case);
        return;
    }
    ctx.set_rule("(TokenPlan T of 1-3 blocks, appended block B first- or third-party under a key no scope of T or the authorizer names, AuthorizerAst A); B reuses the predicate names and constants that checks, policies and rule bodies of T and A look for, carries any scopes, typed or untyped expressions; metamorphic oracle between authorize(T, A) and authorize(T+B, A): no new acceptance, failed checks persist, no earlier check changes, same matched policy, facts of origins without B unchanged, default-scope queries unchanged; non-trivial = B has a fact or rule head whose predicate occurs in a check, policy or rule body of T or A; distinct = hash(T, A, B)");
    ctx.assume("an execution / limit / build error of the extended token counts as refused");
    let cases = ctx.tier.pick(60_000, 900_000);
    let cfg = GenCfg {
        max_facts: 4,
        max_rules: 2,
        max_checks: 2,
        n_keys: 3,
        ..GenCfg::default()
    };
    ctx.run_prop(
        "triples",
        cases,
        || {
            let cfg = cfg.clone();
            from_tape(1800, move |t| gen_case(t, &cfg))
        },
        test_case,
    );
}
