//! C06 - expression evaluation is total, overflow-checked and type-strict
use biscuit_auth::builder as b;
use biscuit_auth::datalog::{self, ExternFunc};
use serde::{Deserialize, Serialize};
use serde_json::json;
use std::cell::Cell;
use std::collections::{BTreeMap, HashMap};
use std::sync::Arc;
use vcore::ast::*;
use vcore::authz::Outcome;
use vcore::gen::*;
use vcore::libeval::*;
use vcore::refeval::*;
use vcore::runner::{Ctx, Report, Violation};
use vcore::tape::{from_tape, Tape};
use vcore::util::hash64;

#[derive(Clone, Debug, Serialize, Deserialize)]
pub struct Case {
    pub expr: Expr,
    pub env: BTreeMap<String, Term>,
    /// also run through builder -> token -> authorize
    pub e2e: bool,
}

thread_local! {
    static REF_TICKS: Cell<u64> = Cell::new(0);
    static LIB_TICKS: Cell<u64> = Cell::new(0);
}

/// extern functions, shared semantics for both sides
fn extern_sem(name: &str, l: Term, r: Option<Term>) -> Option<Result<Term, String>> {
    match name {
        "id" => Some(Ok(l)),
        "tick" => Some(Ok(Term::Bool(true))),
        "tock" => Some(Ok(Term::Bool(false))),
        "fail" => Some(Err("failure requested".to_string())),
        "pair" => Some(Ok(Term::Array(vec![l, r.unwrap_or(Term::Null)]))),
        _ => None,
    }
}

fn ref_extern(name: &str, l: Term, r: Option<Term>) -> Option<Result<Term, String>> {
    if name == "tick" || name == "tock" {
        REF_TICKS.with(|c| c.set(c.get() + 1));
    }
    extern_sem(name, l, r)
}

pub fn lib_externs() -> HashMap<String, ExternFunc> {
    let mut m = HashMap::new();
    for name in ["id", "tick", "tock", "fail", "pair"] {
        let n = name.to_string();
        m.insert(
            name.to_string(),
            ExternFunc::new(Arc::new(move |l: b::Term, r: Option<b::Term>| {
                if n == "tick" || n == "tock" {
                    LIB_TICKS.with(|c| c.set(c.get() + 1));
                }
                extern_sem(&n, Term::from_b(&l), r.as_ref().map(Term::from_b))
                    .unwrap()
                    .map(|t| t.to_b())
            })),
        );
    }
    m
}

fn v(sig: String, detail: String) -> Violation {
    Violation::new(sig, detail)
}

fn op_name(e: &Expr) -> String {
    // the last operator decides the cell name
    match e.ops.last() {
        Some(Op::Unary(u)) => format!("{u:?}"),
        Some(Op::Binary(b)) => format!("{b:?}"),
        Some(Op::Closure(..)) => "closure".into(),
        Some(Op::Value(_)) => "value".into(),
        None => "empty".into(),
    }
}

/// compare library and reference on one expression
pub fn compare(case: &Case, rep: &mut Report) -> Result<(), Violation> {
    let externs = lib_externs();
    REF_TICKS.with(|c| c.set(0));
    LIB_TICKS.with(|c| c.set(0));
    ORDER_SENSITIVE.with(|c| c.set(false));
    let expected = eval(&case.expr, &case.env, &ref_extern);
    let order_sensitive = ORDER_SENSITIVE.with(|c| c.get());
    let got = lib_eval(&case.expr, &case.env, &externs);
    let rt = REF_TICKS.with(|c| c.get());
    let lt = LIB_TICKS.with(|c| c.get());
    let name = op_name(&case.expr);
    let show = || format!("ops {:?}\nenv {:?}", case.expr.ops, case.env);
    match (&expected, &got) {
        (_, LibResult::Panic(p)) => {
            return Err(v(
                format!("panic:{}", p.site()),
                format!("evaluate panicked: {} at {}:{}\n{}", p.message, p.file, p.line, show()),
            ))
        }
        (Err(EvalErr::Ambiguous), _) => {
            rep.class("ambiguous_skipped");
            return Ok(());
        }
        (Ok(a), LibResult::Ok(b)) => {
            if a != b {
                return Err(v(
                    format!("wrong-value:{name}"),
                    format!("expected {a:?} got {b:?}\n{}", show()),
                ));
            }
        }
        (Ok(a), LibResult::Err(e)) => {
            return Err(v(
                format!("error-instead-of-value:{name}"),
                format!("expected {a:?} got error {e}\n{}", show()),
            ))
        }
        (Ok(a), LibResult::Unprintable(e)) => {
            return Err(v(
                format!("unprintable-result:{name}"),
                format!("expected {a:?} got a term that does not convert back: {e}\n{}", show()),
            ))
        }
        (Err(e), LibResult::Ok(bv)) => {
            return Err(v(
                format!("value-instead-of-error:{name}:{e:?}"),
                format!("expected error {e:?} got {bv:?}\n{}", show()),
            ))
        }
        (Err(e), LibResult::Err(le)) => {
            if !classes_compatible(e, le) {
                rep.class(format!("error_class_differs:{e:?}/{le}"));
                // law-governed classes must agree; the rest is error-ness only
                if matches!(e, EvalErr::Overflow | EvalErr::DivideByZero | EvalErr::ShadowedVariable) {
                    return Err(v(
                        format!("wrong-error-class:{name}:{e:?}"),
                        format!("expected {e:?} got {le}\n{}", show()),
                    ));
                }
            }
        }
        (Err(_), LibResult::Unprintable(_)) => {}
    }
    if rt != lt && !order_sensitive {
        return Err(v(
            format!("laziness:{name}"),
            format!("extern call count: reference {rt}, library {lt}\n{}", show()),
        ));
    }
    rep.class(match &expected {
        Ok(_) => "result:value".to_string(),
        Err(e) => format!("result:{e:?}"),
    });
    if case.e2e {
        e2e(case, &expected, rep)?;
    }
    Ok(())
}

/// `check if <expr>` through builder -> token -> authorizer
fn e2e(case: &Case, expected: &EvalResult, rep: &mut Report) -> Result<(), Violation> {
    // bind the environment through facts: env(name, value) is awkward; instead inline constants
    // by substituting variables with their values (closure parameters stay)
    fn subst(ops: &[Op], env: &BTreeMap<String, Term>) -> Vec<Op> {
        ops.iter()
            .map(|o| match o {
                Op::Value(Term::Var(v)) if env.contains_key(v) => Op::Value(env[v].clone()),
                Op::Closure(p, body) => {
                    let mut e2 = env.clone();
                    for x in p {
                        e2.remove(x);
                    }
                    Op::Closure(p.clone(), subst(body, &e2))
                }
                o => o.clone(),
            })
            .collect()
    }
    // shadowing cannot be reproduced after substitution; skip those
    if matches!(expected, Err(EvalErr::ShadowedVariable)) {
        return Ok(());
    }
    let expr = Expr {
        ops: subst(&case.expr.ops, &case.env),
    };
    // values must be wire compatible (homogeneous sets): skip otherwise
    let mut ok = true;
    for o in &expr.ops {
        if let Op::Value(t) = o {
            t.visit(&mut |x| {
                if let Term::Set(s) = x {
                    let mut kinds = s.iter().map(std::mem::discriminant).collect::<Vec<_>>();
                    kinds.dedup();
                    if kinds.len() > 1 || s.iter().any(|e| matches!(e, Term::Set(_))) {
                        ok = false;
                    }
                }
            });
        }
    }
    if !ok {
        return Ok(());
    }
    let expected2 = eval(&expr, &BTreeMap::new(), &ref_extern);
    if matches!(expected2, Err(EvalErr::Ambiguous)) {
        return Ok(());
    }
    let check = Check {
        kind: CheckKind::One,
        queries: vec![Rule::query(vec![], vec![expr.clone()], vec![])],
    };
    let keys: Vec<biscuit_auth::PublicKey> = vec![];
    let block = Block {
        checks: vec![check.clone()],
        ..Default::default()
    };
    let allow = Policy {
        allow: true,
        queries: vec![Rule::query(vec![], vec![Expr { ops: vec![Op::Value(Term::Bool(true))] }], vec![])],
    };
    let root = vcore::keys::KeyPlan {
        alg: vcore::keys::Alg::Ed,
        seed: 42,
    }
    .keypair();
    let next = vcore::keys::KeyPlan {
        alg: vcore::keys::Alg::Ed,
        seed: 43,
    }
    .keypair();
    let outcome = vcore::util::guard(|| -> Result<Outcome, String> {
        let tok = block
            .to_biscuit_builder(&keys)
            .map_err(|e| format!("{e:?}"))?
            .build_with_key_pair(&root, biscuit_auth::datalog::SymbolTable::default(), &next)
            .map_err(|e| format!("{e:?}"))?;
        let bytes = tok.to_vec().map_err(|e| format!("{e:?}"))?;
        let tok = biscuit_auth::Biscuit::from(&bytes, root.public()).map_err(|e| format!("reload: {e:?}"))?;
        let ab = b::AuthorizerBuilder::new()
            .policy(allow.to_b(&keys))
            .map_err(|e| format!("{e:?}"))?
            .set_extern_funcs(lib_externs())
            .limits(vcore::authz::big_limits());
        let mut a = ab.build(&tok).map_err(|e| format!("{e:?}"))?;
        Ok(vcore::authz::normalize(a.authorize()))
    });
    rep.evals(1);
    let show = || format!("check if <{:?}>", expr.ops);
    match outcome {
        Err(p) => Err(v(format!("panic:{}", p.site()), format!("e2e: {} at {}:{}\n{}", p.message, p.file, p.line, show()))),
        Ok(Err(e)) => {
            rep.class("e2e:build_refused");
            // the builder / wire may refuse (e.g. version detection); not an evaluation matter
            let _ = e;
            Ok(())
        }
        Ok(Ok(o)) => {
            let ok = match (&expected2, &o) {
                (Ok(Term::Bool(true)), Outcome::Allow(0)) => true,
                (Ok(Term::Bool(false)), Outcome::Refused { failed, .. }) => failed == &vec![(Some(0u32), 0u32)],
                (Ok(Term::Bool(_)), _) => false,
                (Ok(_), Outcome::ExecError(c)) => c == "InvalidType",
                (Err(_), Outcome::ExecError(_)) => true,
                _ => false,
            };
            rep.class("e2e:run");
            if ok {
                Ok(())
            } else {
                Err(v(
                    format!("e2e-differs:{}", op_name(&expr)),
                    format!("expression evaluates to {:?} but authorize() gives {:?}\n{}", expected2, o, show()),
                ))
            }
        }
    }
}

pub fn value_set() -> Vec<Term> {
    use Term::*;
    let set = |v: Vec<Term>| Set(v.into_iter().collect());
    let map = |v: Vec<(MapKey, Term)>| Map(v.into_iter().collect());
    vec![
        Int(0),
        Int(1),
        Int(-1),
        Int(2),
        Int(7),
        Int(i64::MAX),
        Int(i64::MIN),
        Term::s(""),
        Term::s("a"),
        Term::s("abc"),
        Term::s("h\u{e9}llo"),
        Term::s("a b"),
        Term::s("integer"),
        Date(0),
        Date(1000),
        Bytes(vec![]),
        Bytes(vec![1, 2]),
        Bool(true),
        Bool(false),
        Null,
        set(vec![]),
        set(vec![Int(1)]),
        set(vec![Int(1), Int(2)]),
        set(vec![Term::s("a")]),
        set(vec![Term::s("a"), Term::s("abc")]),
        set(vec![Null]),
        set(vec![Bool(true), Bool(false)]),
        Array(vec![]),
        Array(vec![Int(1)]),
        Array(vec![Int(1), Term::s("a")]),
        Array(vec![Array(vec![Int(1)])]),
        Array(vec![Null]),
        Array(vec![Bool(true), Bool(true)]),
        map(vec![]),
        map(vec![(MapKey::Int(1), Int(1))]),
        map(vec![(MapKey::Str("a".into()), Int(1))]),
        map(vec![(MapKey::Str("a".into()), Array(vec![Int(1)])), (MapKey::Int(2), Null)]),
        Var("unbound_var".into()),
        Var("i".into()),
    ]
}

fn table_env() -> BTreeMap<String, Term> {
    let mut m = BTreeMap::new();
    m.insert("i".to_string(), Term::Int(3));
    m.insert("s".to_string(), Term::s("a"));
    m
}

/// the exhaustive operator table
pub fn table_cases() -> Vec<Case> {
    let vals = value_set();
    let env = table_env();
    let mut out = vec![];
    let mut uns: Vec<Un> = ALL_UN.to_vec();
    uns.extend([Un::Ffi("id".into()), Un::Ffi("missing".into()), Un::Ffi("fail".into())]);
    for u in &uns {
        for a in &vals {
            out.push(Case {
                expr: Expr {
                    ops: vec![Op::Value(a.clone()), Op::Unary(u.clone())],
                },
                env: env.clone(),
                e2e: false,
            });
        }
    }
    let mut bins: Vec<Bin> = ALL_BIN.to_vec();
    bins.extend([Bin::Ffi("pair".into()), Bin::Ffi("missing".into())]);
    for bop in &bins {
        for a in &vals {
            for c in &vals {
                out.push(Case {
                    expr: Expr {
                        ops: vec![Op::Value(a.clone()), Op::Value(c.clone()), Op::Binary(bop.clone())],
                    },
                    env: env.clone(),
                    e2e: false,
                });
            }
        }
    }
    // closure operators x left values x bodies x parameter lists
    let t = |x: Term| Op::Value(x);
    let p = || Op::Value(Term::v("p"));
    let bodies: Vec<Vec<Op>> = vec![
        vec![t(Term::Bool(true))],
        vec![t(Term::Bool(false))],
        vec![p(), t(Term::Int(1)), Op::Binary(Bin::HeterogeneousEqual)],
        vec![p(), t(Term::Int(1)), Op::Binary(Bin::Equal)],
        vec![p()],
        vec![t(Term::Int(1))],
        vec![p(), Op::Unary(Un::Length), t(Term::Int(0)), Op::Binary(Bin::GreaterThan)],
        vec![t(Term::v("unbound_var"))],
        vec![t(Term::s("a")), t(Term::Int(1)), Op::Binary(Bin::Add)],
        vec![t(Term::Int(1)), t(Term::Int(0)), Op::Binary(Bin::Div), t(Term::Int(1)), Op::Binary(Bin::Equal)],
        vec![t(Term::v("i")), t(Term::Int(3)), Op::Binary(Bin::Equal)],
        vec![t(Term::Null), Op::Unary(Un::Ffi("tick".into()))],
        // nested closure
        vec![
            p(),
            Op::Closure(vec!["q".into()], vec![t(Term::v("q")), p(), Op::Binary(Bin::HeterogeneousEqual)]),
            Op::Binary(Bin::Any),
        ],
        // nested closure shadowing the outer parameter
        vec![
            p(),
            Op::Closure(vec!["p".into()], vec![t(Term::Bool(true))]),
            Op::Binary(Bin::All),
        ],
        vec![],
    ];
    let params: Vec<Vec<String>> = vec![vec![], vec!["p".into()], vec!["p".into(), "q".into()], vec!["i".into()]];
    let mut cbins = vec![Bin::All, Bin::Any, Bin::LazyAnd, Bin::LazyOr, Bin::Add, Bin::Equal, Bin::Get, Bin::Contains];
    cbins.push(Bin::Ffi("pair".into()));
    for bop in &cbins {
        for a in &vals {
            for body in &bodies {
                for ps in &params {
                    out.push(Case {
                        expr: Expr {
                            ops: vec![Op::Value(a.clone()), Op::Closure(ps.clone(), body.clone()), Op::Binary(bop.clone())],
                        },
                        env: env.clone(),
                        e2e: false,
                    });
                }
            }
        }
    }
    // closures where terms are expected
    for u in &uns {
        out.push(Case {
            expr: Expr {
                ops: vec![Op::Closure(vec![], vec![t(Term::Bool(true))]), Op::Unary(u.clone())],
            },
            env: env.clone(),
            e2e: false,
        });
    }
    for bop in &bins {
        out.push(Case {
            expr: Expr {
                ops: vec![
                    Op::Closure(vec![], vec![t(Term::Bool(true))]),
                    t(Term::Bool(true)),
                    Op::Binary(bop.clone()),
                ],
            },
            env: env.clone(),
            e2e: false,
        });
        out.push(Case {
            expr: Expr {
                ops: vec![
                    Op::Closure(vec![], vec![t(Term::Bool(true))]),
                    Op::Closure(vec![], vec![t(Term::Bool(true))]),
                    Op::Binary(bop.clone()),
                ],
            },
            env: env.clone(),
            e2e: false,
        });
    }
    out
}

fn gen_env(t: &mut Tape, cfg: &GenCfg) -> (BTreeMap<String, Term>, Env) {
    let mut env = BTreeMap::new();
    let mut tys = Env::new();
    for name in ["i", "j", "s", "x", "y", "se"] {
        if t.chance(2, 3) {
            let ty = var_type(name).unwrap();
            let val = if t.chance(1, 5) { gen_any(t, cfg, 2) } else { gen_const(t, ty, cfg) };
            env.insert(name.to_string(), val);
            tys.insert(name.to_string(), ty);
        }
    }
    (env, tys)
}

fn gen_raw_op(t: &mut Tape, cfg: &GenCfg, depth: usize) -> Op {
    match t.weighted(&[5, 2, 5, if depth > 0 { 2 } else { 0 }]) {
        0 => {
            if t.chance(1, 4) {
                Op::Value(Term::v(*t.choose(&["i", "j", "s", "x", "nope", "c1"])))
            } else {
                Op::Value(gen_any(t, cfg, 2))
            }
        }
        1 => {
            let mut uns: Vec<Un> = ALL_UN.to_vec();
            uns.extend([Un::Ffi("id".into()), Un::Ffi("tick".into()), Un::Ffi("missing".into())]);
            Op::Unary(uns[t.pick(uns.len())].clone())
        }
        2 => {
            let mut bins: Vec<Bin> = ALL_BIN.to_vec();
            bins.extend([Bin::Ffi("pair".into()), Bin::Ffi("missing".into())]);
            Op::Binary(bins[t.pick(bins.len())].clone())
        }
        _ => {
            let np = t.weighted(&[3, 5, 1]);
            let ps = (0..np).map(|k| t.choose(&["c1", "c2", "i", "p"]).to_string() + if k > 0 { "b" } else { "" }).collect();
            let n = t.range(0, 5);
            Op::Closure(ps, (0..n).map(|_| gen_raw_op(t, cfg, depth - 1)).collect())
        }
    }
}

pub fn gen_case(t: &mut Tape, cfg: &GenCfg) -> Case {
    let (env, tys) = gen_env(t, cfg);
    let kind = t.weighted(&[4, 4, 3, 2]);
    let expr = match kind {
        0 => gen_typed_expr(t, cfg, &tys),
        1 => gen_untyped_expr(t, cfg, &tys),
        2 => {
            // laziness probes: the right side calls a counting extern or fails
            let left = gen_bool_expr(t, cfg, &tys, 1);
            let right = match t.pick(4) {
                0 => ETree::Un(Un::Ffi("tick".into()), Box::new(ETree::Val(Term::Null))),
                1 => ETree::Un(Un::Ffi("tock".into()), Box::new(ETree::Val(Term::Null))),
                2 => ETree::Bin(
                    Bin::Equal,
                    Box::new(ETree::Bin(Bin::Div, Box::new(ETree::Val(Term::Int(1))), Box::new(ETree::Val(Term::Int(0))))),
                    Box::new(ETree::Val(Term::Int(1))),
                ),
                _ => ETree::Bin(
                    Bin::LazyAnd,
                    Box::new(ETree::Un(Un::Ffi("tick".into()), Box::new(ETree::Val(Term::Null)))),
                    Box::new(ETree::Un(Un::Ffi("tock".into()), Box::new(ETree::Val(Term::Null)))),
                ),
            };
            let op = match t.pick(4) {
                0 => Bin::LazyAnd,
                1 => Bin::LazyOr,
                2 => Bin::And,
                _ => Bin::Or,
            };
            ETree::Bin(op, Box::new(left), Box::new(right)).to_expr()
        }
        _ => {
            // malformed sequences
            let n = t.range(0, 7);
            Expr {
                ops: (0..n).map(|_| gen_raw_op(t, cfg, 2)).collect(),
            }
        }
    };
    Case {
        expr,
        env,
        e2e: t.chance(1, 4),
    }
}

pub fn test_case(case: &Case, rep: &mut Report) -> Result<(), Violation> {
    let r = compare(case, rep);
    // non-trivial: evaluation reaches at least one operator with all operands evaluated
    let reaches = case.expr.ops.iter().any(|o| matches!(o, Op::Unary(_) | Op::Binary(_)))
        && !matches!(eval(&case.expr, &case.env, &ref_extern), Err(EvalErr::InvalidStack));
    if reaches {
        rep.nontrivial(hash64(&(&case.expr, &case.env)));
    }
    rep.sample(json!({"ops": format!("{:?}", case.expr.ops), "env": format!("{:?}", case.env)}));
    r
}

/// values the builder cannot express: unknown symbol index, unknown variable id
fn raw_probes(ctx: &Ctx) {
    use datalog::{Binary as B, Op as O, Term as T, Unary as U};
    let symbols = datalog::SymbolTable::default();
    let unknown = T::Str(99_999);
    let mut n = 0u64;
    let unaries = [U::Negate, U::Parens, U::Length, U::TypeOf, U::Ffi(99_999), U::Ffi(0)];
    let binaries = [
        B::LessThan, B::GreaterThan, B::LessOrEqual, B::GreaterOrEqual, B::Equal, B::Contains, B::Prefix, B::Suffix, B::Regex,
        B::Add, B::Sub, B::Mul, B::Div, B::And, B::Or, B::Intersection, B::Union, B::BitwiseAnd, B::BitwiseOr, B::BitwiseXor,
        B::NotEqual, B::HeterogeneousEqual, B::HeterogeneousNotEqual, B::LazyAnd, B::LazyOr, B::All, B::Any, B::Get, B::Ffi(99_999),
    ];
    let others = [
        unknown.clone(),
        T::Str(0),
        T::Integer(1),
        T::Variable(77),
        T::Set([unknown.clone()].into_iter().collect()),
        T::Array(vec![unknown.clone()]),
        T::Map([(datalog::MapKey::Str(99_999), unknown.clone())].into_iter().collect()),
    ];
    let mut report = |ops: Vec<O>| {
        n += 1;
        if let Err(p) = lib_eval_raw(ops.clone(), &HashMap::new(), &symbols) {
            let vio = v(
                format!("panic:{}", p.site()),
                format!("raw ops {:?}: {} at {}:{}", ops, p.message, p.file, p.line),
            );
            if !ctx.tolerate(&vio) {
                ctx.violation("raw", &vio, &json!({"raw_ops": format!("{:?}", ops)}));
            }
        }
    };
    for u in &unaries {
        for a in &others {
            report(vec![O::Value(a.clone()), O::Unary(u.clone())]);
        }
    }
    for bop in &binaries {
        for a in &others {
            for c in &others {
                report(vec![O::Value(a.clone()), O::Value(c.clone()), O::Binary(bop.clone())]);
            }
            report(vec![
                O::Value(a.clone()),
                O::Closure(vec![5], vec![O::Value(T::Variable(5)), O::Value(unknown.clone()), O::Binary(B::Prefix)]),
                O::Binary(bop.clone()),
            ]);
        }
    }
    ctx.class_add("raw_unknown_symbol_probes", n);
}

pub fn run(ctx: &Ctx, replay: Option<&serde_json::Value>) {
    if let Some(r) = replay {
        if r["case"].get("raw_ops").is_some() {
            raw_probes(ctx);
            return;
        }
        let case: Case = serde_json::from_value(r["case"].clone()).expect("bad replay case");
        ctx.run_list(r["sub"].as_str().unwrap_or("sequences"), &[case], test_case);
        return;
    }
    ctx.set_rule("(a) exhaustive operator table: every unary op x V, every binary op x V x V, closure-taking ops x V x 15 bodies x 4 parameter lists (V = 39 representative values); (b) generated op sequences: typed trees, untyped trees, laziness probes with counting externs, malformed sequences; 1/4 also through builder -> token -> authorize; oracle = RefEval; non-trivial = evaluation reaches an operator with all operands evaluated (not an immediate stack error); distinct = hash(ops, bindings)");
    ctx.assume("RefEval pins cells the specification leaves open (e.g. set.contains(null) is a type error, map.contains(non-key) is false, lazy operators return the closure result unchecked) to the behaviour of the tree at design time; law-governed cells (checked arithmetic, type strictness of ===, laziness, shadowing, stack discipline) are independent");
    ctx.assume("all/any over sets and string-keyed maps with an erroring element are order dependent and skipped (Ambiguous)");
    let table = table_cases();
    ctx.extra("table_cells", json!(table.len()));
    ctx.extra("exhaustive_table", json!(true));
    ctx.run_list("table", &table, test_case);
    raw_probes(ctx);
    let cases = ctx.tier.pick(600_000, 20_000_000);
    let cfg = GenCfg {
        typed: false,
        extern_funcs: true,
        ..GenCfg::default()
    };
    ctx.run_prop(
        "sequences",
        cases,
        || {
            let cfg = cfg.clone();
            from_tape(300, move |t| gen_case(t, &cfg))
        },
        test_case,
    );
}
