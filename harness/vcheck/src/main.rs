//! vcheck <property> <quick|thorough>   |   vcheck --replay <file>
use vcore::runner::{Ctx, Tier};

mod c01;
mod c02;
mod c03;
mod c04;
mod c05;
mod c06;
mod c07;
mod c08;
mod c09;
mod c10;
mod c11;
mod c12;
mod c13;
mod c14;
mod c15;
mod c16;
mod c17;
mod c18;
mod c19;
mod c20;

pub fn level_of(p: &str) -> &'static str {
    match p {
        "C01" | "C07" | "C08" => "fault_enumeration",
        _ => "exploration",
    }
}

fn dispatch(ctx: &Ctx, replay: Option<&serde_json::Value>) {
    match ctx.property.as_str() {
        "C01" => c01::run(ctx, replay),
        "C02" => c02::run(ctx, replay),
        "C03" => c03::run(ctx, replay),
        "C04" => c04::run(ctx, replay),
        "C05" => c05::run(ctx, replay),
        "C06" => c06::run(ctx, replay),
        "C07" => c07::run(ctx, replay),
        "C08" => c08::run(ctx, replay),
        "C09" => c09::run(ctx, replay),
        "C10" => c10::run(ctx, replay),
        "C11" => c11::run(ctx, replay),
        "C12" => c12::run(ctx, replay),
        "C13" => c13::run(ctx, replay),
        "C14" => c14::run(ctx, replay),
        "C15" => c15::run(ctx, replay),
        "C16" => c16::run(ctx, replay),
        "C17" => c17::run(ctx, replay),
        "C18" => c18::run(ctx, replay),
        "C19" => c19::run(ctx, replay),
        "C20" => c20::run(ctx, replay),
        p => {
            eprintln!("unknown property {p}");
            std::process::exit(2);
        }
    }
}

fn main() {
    vcore::util::install_panic_hook();
    let args: Vec<String> = std::env::args().collect();
    if args.len() >= 2 && args[1] == "--c09-worker" {
        c09::worker();
        return;
    }
    if args.len() >= 2 && args[1] == "--c19-worker" {
        c19::worker();
        return;
    }
    if args.len() >= 3 && args[1] == "--replay" {
        let v = vcore::runner::read_json(std::path::Path::new(&args[2]));
        let prop = v["property"].as_str().expect("replay file without property").to_string();
        let mut ctx = Ctx::new(&prop, Tier::Quick, level_of(&prop));
        ctx.replay_mode = true;
        dispatch(&ctx, Some(&v));
        std::process::exit(ctx.finish());
    }
    if args.len() < 3 {
        eprintln!("usage: vcheck <Cxx> <quick|thorough> | --replay <file>");
        std::process::exit(2);
    }
    let tier = match args[2].as_str() {
        "quick" => Tier::Quick,
        "thorough" => Tier::Thorough,
        _ => {
            eprintln!("tier must be quick or thorough");
            std::process::exit(2);
        }
    };
    let ctx = Ctx::new(&args[1], tier, level_of(&args[1]));
    // committed regressions first (seconds-long replay tier)
    let reg_dir = vcore::runner::verif_root().join("regressions").join(&args[1]);
    if let Ok(rd) = std::fs::read_dir(&reg_dir) {
        let mut files: Vec<_> = rd.filter_map(|e| e.ok()).map(|e| e.path()).filter(|p| p.extension().map(|x| x == "json").unwrap_or(false)).collect();
        files.sort();
        for f in files {
            let v = vcore::runner::read_json(&f);
            dispatch(&ctx, Some(&v));
            ctx.class_add("regression_replayed", 1);
        }
    }
    dispatch(&ctx, None);
    std::process::exit(ctx.finish());
}
