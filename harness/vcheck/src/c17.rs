//! C17 - key and signature encodings round-trip and reject malformed material
use biscuit_auth::builder::Algorithm;
use biscuit_auth::format::schema;
use biscuit_auth::verif_hooks::Signature;
use biscuit_auth::{KeyPair, PrivateKey, PublicKey};
use serde::{Deserialize, Serialize};
use serde_json::json;
use vcore::keys::{Alg, KeyPlan};
use vcore::runner::{Ctx, Report, Violation};
use vcore::tape::{from_tape, Tape};
use vcore::util::{guard, hash64};

#[derive(Clone, Debug, Serialize, Deserialize, Hash)]
pub struct Case {
    pub key: KeyPlan,
    pub other: KeyPlan,
    pub message: Vec<u8>,
    pub params: Vec<u16>,
}

fn v(sig: String, detail: String) -> Violation {
    Violation::new(sig, detail)
}

pub fn gen_case(t: &mut Tape) -> Case {
    let alg = if t.chance(1, 2) { Alg::P256 } else { Alg::Ed };
    let key = KeyPlan { alg, seed: t.u64() << 8 };
    let other = KeyPlan {
        alg: if t.chance(1, 3) { alg } else if alg == Alg::Ed { Alg::P256 } else { Alg::Ed },
        seed: (t.u64() << 8) | 1,
    };
    let n = t.range(0, 300);
    let message = (0..n).map(|_| t.raw() as u8).collect();
    let params = (0..64).map(|_| t.raw()).collect();
    Case {
        key,
        other,
        message,
        params,
    }
}

fn lib_alg(a: Alg) -> Algorithm {
    a.to_lib()
}
fn other_alg(a: Alg) -> Algorithm {
    match a {
        Alg::Ed => Algorithm::Secp256r1,
        Alg::P256 => Algorithm::Ed25519,
    }
}
fn schema_alg(a: Alg) -> schema::public_key::Algorithm {
    match a {
        Alg::Ed => schema::public_key::Algorithm::Ed25519,
        Alg::P256 => schema::public_key::Algorithm::Secp256r1,
    }
}

/// the public key an independent use of the primitive crates derives from the private bytes
fn independent_public(alg: Alg, private: &[u8]) -> Option<Vec<u8>> {
    match alg {
        Alg::Ed => {
            let b: [u8; 32] = private.try_into().ok()?;
            Some(vcore::ed25519_dalek::SigningKey::from_bytes(&b).verifying_key().to_bytes().to_vec())
        }
        Alg::P256 => {
            if private.len() != 32 {
                return None;
            }
            let k = vcore::p256::ecdsa::SigningKey::from_bytes(private.into()).ok()?;
            Some(k.verifying_key().to_encoded_point(true).as_bytes().to_vec())
        }
    }
}

/// is `bytes` a valid public key encoding for `alg`, and which canonical key does it denote
fn independent_public_decode(alg: Alg, bytes: &[u8]) -> Option<Vec<u8>> {
    match alg {
        Alg::Ed => {
            let b: [u8; 32] = bytes.try_into().ok()?;
            vcore::ed25519_dalek::VerifyingKey::from_bytes(&b).ok().map(|k| k.to_bytes().to_vec())
        }
        Alg::P256 => vcore::p256::ecdsa::VerifyingKey::from_sec1_bytes(bytes).ok().map(|k| k.to_encoded_point(true).as_bytes().to_vec()),
    }
}

fn independent_private_ok(alg: Alg, bytes: &[u8]) -> bool {
    match alg {
        Alg::Ed => bytes.len() == 32,
        Alg::P256 => bytes.len() == 32 && vcore::p256::ecdsa::SigningKey::from_bytes(bytes.into()).is_ok(),
    }
}

macro_rules! rt {
    ($name:expr, $e:expr) => {
        match guard(|| $e) {
            Ok(Ok(x)) => x,
            Ok(Err(e)) => return Err(v(format!("roundtrip-error:{}", $name), format!("{:?}", e))),
            Err(p) => return Err(v(format!("panic:{}", p.site()), format!("{}: {} at {}:{}", $name, p.message, p.file, p.line))),
        }
    };
}

fn corruptions(bytes: &[u8], t: &mut Tape, exhaustive_flips: bool) -> Vec<(String, Vec<u8>)> {
    let mut out = vec![];
    for k in 0..bytes.len() {
        out.push((format!("truncate"), bytes[..k].to_vec()));
    }
    for extra in 1..=3 {
        let mut b = bytes.to_vec();
        for _ in 0..extra {
            b.push(t.raw() as u8);
        }
        out.push(("extend".into(), b));
    }
    if exhaustive_flips {
        for i in 0..bytes.len() {
            for bit in 0..8 {
                let mut b = bytes.to_vec();
                b[i] ^= 1 << bit;
                out.push(("bitflip".into(), b));
            }
        }
    } else {
        for _ in 0..64 {
            if bytes.is_empty() {
                break;
            }
            let mut b = bytes.to_vec();
            let i = t.pick(b.len());
            b[i] ^= 1 << t.pick(8);
            out.push(("bitflip".into(), b));
        }
    }
    out
}

pub fn test_case(ctx: &Ctx, case: &Case, rep: &mut Report) -> Result<(), Violation> {
    let alg = case.key.alg;
    let kp = case.key.keypair();
    let private = kp.private();
    let public = kp.public();
    let mut tp = Tape::new(case.params.clone());
    rep.class(format!("alg:{}", alg.name()));
    rep.nontrivial(hash64(case));
    rep.sample(json!({"public": public.to_string(), "message_len": case.message.len()}));
    let tol = |vio: Violation| -> Result<(), Violation> {
        if ctx.tolerate(&vio) {
            Ok(())
        } else {
            Err(vio)
        }
    };

    // ------------------------------------------------------------------ private key round trips
    let pb = private.to_bytes().to_vec();
    let mut privates: Vec<(&str, PrivateKey)> = vec![];
    privates.push(("from_bytes", rt!("private.from_bytes", PrivateKey::from_bytes(&pb, lib_alg(alg)))));
    privates.push(("from_bytes_hex", rt!("private.from_bytes_hex", PrivateKey::from_bytes_hex(&private.to_bytes_hex(), lib_alg(alg)))));
    privates.push(("from_str", rt!("private.from_str", private.to_prefixed_string().parse::<PrivateKey>())));
    let der = rt!("private.to_der", private.to_der());
    privates.push(("from_der", rt!("private.from_der", PrivateKey::from_der(&der))));
    privates.push(("from_der_with_algorithm", rt!("private.from_der_with_algorithm", PrivateKey::from_der_with_algorithm(&der, lib_alg(alg)))));
    let pem = rt!("private.to_pem", private.to_pem());
    privates.push(("from_pem", rt!("private.from_pem", PrivateKey::from_pem(&pem))));
    privates.push(("from_pem_with_algorithm", rt!("private.from_pem_with_algorithm", PrivateKey::from_pem_with_algorithm(&pem, lib_alg(alg)))));
    privates.push(("keypair.from(private)", KeyPair::from(&private).private()));
    privates.push(("keypair.from_bytes", rt!("keypair.from_bytes", KeyPair::from_bytes(&pb, schema_alg(alg))).private()));
    let kder = rt!("keypair.to_private_key_der", kp.to_private_key_der());
    privates.push(("keypair.from_private_key_der", rt!("keypair.from_private_key_der", KeyPair::from_private_key_der(&kder)).private()));
    privates.push((
        "keypair.from_private_key_der_with_algorithm",
        rt!("keypair.from_private_key_der_with_algorithm", KeyPair::from_private_key_der_with_algorithm(&kder, lib_alg(alg))).private(),
    ));
    let kpem = rt!("keypair.to_private_key_pem", kp.to_private_key_pem());
    privates.push(("keypair.from_private_key_pem", rt!("keypair.from_private_key_pem", KeyPair::from_private_key_pem(&kpem)).private()));
    privates.push((
        "keypair.from_private_key_pem_with_algorithm",
        rt!("keypair.from_private_key_pem_with_algorithm", KeyPair::from_private_key_pem_with_algorithm(&kpem, lib_alg(alg))).private(),
    ));
    let indep_pub = independent_public(alg, &pb).ok_or_else(|| v("private-bytes-not-valid".into(), hex::encode(&pb)))?;
    for (name, k) in &privates {
        rep.evals(1);
        if *k != private || k.to_bytes().to_vec() != pb || k.algorithm() != schema_alg(alg) {
            tol(v(format!("private-roundtrip-differs:{name}"), format!("{} key {}", alg.name(), private.to_prefixed_string())))?;
        }
        if k.public() != public || k.public().to_bytes() != indep_pub {
            tol(v(format!("public-of-private-differs:{name}"), format!("{} key", alg.name())))?;
        }
    }
    if public.to_bytes() != indep_pub {
        tol(v("public-differs-from-independent-derivation".into(), format!("{} {}", alg.name(), public)))?;
    }

    // ------------------------------------------------------------------ public key round trips
    let pubb = public.to_bytes();
    let mut publics: Vec<(&str, PublicKey)> = vec![];
    publics.push(("from_bytes", rt!("public.from_bytes", PublicKey::from_bytes(&pubb, lib_alg(alg)))));
    publics.push(("from_bytes_hex", rt!("public.from_bytes_hex", PublicKey::from_bytes_hex(&public.to_bytes_hex(), lib_alg(alg)))));
    publics.push(("from_str", rt!("public.from_str", public.to_string().parse::<PublicKey>())));
    publics.push(("from_str(print)", rt!("public.from_str(print)", public.print().parse::<PublicKey>())));
    publics.push(("from_proto", rt!("public.from_proto", PublicKey::from_proto(&public.to_proto()))));
    let pder = rt!("public.to_der", public.to_der());
    publics.push(("from_der", rt!("public.from_der", PublicKey::from_der(&pder))));
    publics.push(("from_der_with_algorithm", rt!("public.from_der_with_algorithm", PublicKey::from_der_with_algorithm(&pder, lib_alg(alg)))));
    let ppem = rt!("public.to_pem", public.to_pem());
    publics.push(("from_pem", rt!("public.from_pem", PublicKey::from_pem(&ppem))));
    publics.push(("from_pem_with_algorithm", rt!("public.from_pem_with_algorithm", PublicKey::from_pem_with_algorithm(&ppem, lib_alg(alg)))));
    for (name, k) in &publics {
        rep.evals(1);
        if *k != public || k.to_bytes() != pubb || k.algorithm() != schema_alg(alg) || k.algorithm_string() != alg.name() {
            tol(v(format!("public-roundtrip-differs:{name}"), format!("{} {}", alg.name(), public)))?;
        }
    }
    let proto = public.to_proto();
    if proto.algorithm != schema_alg(alg) as i32 || proto.key != pubb {
        tol(v("public-to_proto-wrong".into(), format!("{:?}", proto)))?;
    }
    if !public.to_string().starts_with(&format!("{}/", alg.name())) || public.print() != public.to_string() {
        tol(v("public-string-form-wrong".into(), format!("{} / {}", public, public.print())))?;
    }

    // ------------------------------------------------------------------ signatures
    let sig = rt!("sign", kp.sign(&case.message));
    let sigb = sig.to_bytes().to_vec();
    let verify = |k: &PublicKey, m: &[u8], s: &[u8]| -> Result<bool, vcore::util::PanicInfo> {
        guard(|| Signature::from_bytes(s).map(|s| k.verify_signature(m, &s).is_ok()).unwrap_or(false))
    };
    let chk = |name: &str, r: Result<bool, vcore::util::PanicInfo>, expect: bool| -> Result<(), Violation> {
        match r {
            Ok(b) if b == expect => Ok(()),
            Ok(b) => Err(v(
                format!("signature-verification:{name}"),
                format!("{} key: verification returned {b}, expected {expect}", alg.name()),
            )),
            Err(p) => Err(v(format!("panic:{}", p.site()), format!("verify {name}: {}", p.message))),
        }
    };
    rep.evals(1);
    tol_r(ctx, chk("valid", verify(&public, &case.message, &sigb), true))?;
    // re-decoded keys verify too
    for (name, k) in &publics {
        tol_r(ctx, chk(&format!("valid-under-{name}"), verify(k, &case.message, &sigb), true))?;
    }
    let other_pub = case.other.public();
    tol_r(ctx, chk("other-key", verify(&other_pub, &case.message, &sigb), false))?;
    let mut m2 = case.message.clone();
    if m2.is_empty() {
        m2.push(0);
    } else {
        let i = tp.pick(m2.len());
        m2[i] ^= 1 << tp.pick(8);
    }
    tol_r(ctx, chk("other-message", verify(&public, &m2, &sigb), false))?;
    let mut m3 = case.message.clone();
    m3.push(0);
    tol_r(ctx, chk("extended-message", verify(&public, &m3, &sigb), false))?;
    // every single-bit change of the signature, truncations, extensions
    for (kind, s2) in corruptions(&sigb, &mut tp, true) {
        if s2 == sigb {
            continue;
        }
        rep.evals(1);
        match verify(&public, &case.message, &s2) {
            Ok(false) => {}
            Ok(true) => {
                // ECDSA: a DER re-encoding or (r, n-s) is another signature; a bit flip cannot be
                tol(v(
                    format!("corrupted-signature-accepted:{}:{kind}", alg.name()),
                    format!("signature {} accepted in place of {}", hex::encode(&s2), hex::encode(&sigb)),
                ))?;
            }
            Err(p) => tol(v(format!("panic:{}", p.site()), format!("verify corrupted signature: {}", p.message)))?,
        }
    }

    // ------------------------------------------------------------------ corrupted key encodings
    // raw public bytes
    for (kind, b2) in corruptions(&pubb, &mut tp, true) {
        rep.evals(1);
        let r = guard(|| PublicKey::from_bytes(&b2, lib_alg(alg)));
        let indep = independent_public_decode(alg, &b2);
        match r {
            Err(p) => tol(v(format!("panic:{}", p.site()), format!("PublicKey::from_bytes({} bytes): {}", b2.len(), p.message)))?,
            Ok(Ok(k)) => match &indep {
                Some(c) if *c == k.to_bytes() => {
                    rep.class("corrupted_public_is_another_valid_key");
                }
                _ => tol(v(
                    format!("malformed-public-key-accepted:{}:{kind}", alg.name()),
                    format!("{} ({} bytes) decoded to {}", hex::encode(&b2), b2.len(), k),
                ))?,
            },
            Ok(Err(_)) => {
                if indep.is_some() {
                    tol(v(format!("valid-public-key-refused:{}", alg.name()), hex::encode(&b2)))?;
                }
            }
        }
        // the string forms agree with the byte form
        let s = format!("{}/{}", alg.name(), hex::encode(&b2));
        match guard(|| s.parse::<PublicKey>()) {
            Err(p) => tol(v(format!("panic:{}", p.site()), format!("PublicKey::from_str({s}): {}", p.message)))?,
            Ok(r2) => {
                if r2.is_ok() != indep.is_some() && !b2.is_empty() {
                    tol(v(format!("public-string-form-disagrees:{}", alg.name()), format!("{s}: {:?}", r2.map(|k| k.to_string()))))?;
                }
            }
        }
        // protobuf form
        let pr = schema::PublicKey {
            algorithm: schema_alg(alg) as i32,
            key: b2.clone(),
        };
        match guard(|| PublicKey::from_proto(&pr)) {
            Err(p) => tol(v(format!("panic:{}", p.site()), format!("from_proto: {}", p.message)))?,
            Ok(r2) => {
                if r2.is_ok() != indep.is_some() {
                    tol(v(format!("public-proto-form-disagrees:{}", alg.name()), hex::encode(&b2)))?;
                }
            }
        }
    }
    // raw private bytes
    for (kind, b2) in corruptions(&pb, &mut tp, false) {
        rep.evals(1);
        let ok = independent_private_ok(alg, &b2);
        for (entry, r) in [
            ("PrivateKey::from_bytes", guard(|| PrivateKey::from_bytes(&b2, lib_alg(alg)).map(|k| k.to_bytes().to_vec()))),
            ("KeyPair::from_bytes", guard(|| KeyPair::from_bytes(&b2, schema_alg(alg)).map(|k| k.private().to_bytes().to_vec()))),
            ("PrivateKey::from_str", guard(|| format!("{}/{}", alg.name(), hex::encode(&b2)).parse::<PrivateKey>().map(|k| k.to_bytes().to_vec()))),
        ] {
            match r {
                Err(p) => tol(v(format!("panic:{}", p.site()), format!("{entry}({} bytes): {}", b2.len(), p.message)))?,
                Ok(Ok(k)) => {
                    if !ok || k != b2 {
                        tol(v(
                            format!("malformed-private-key-accepted:{}:{kind}", alg.name()),
                            format!("{entry}: {} ({} bytes)", hex::encode(&b2), b2.len()),
                        ))?;
                    }
                }
                Ok(Err(_)) => {
                    if ok {
                        tol(v(format!("valid-private-key-refused:{}", alg.name()), format!("{entry}: {}", hex::encode(&b2))))?;
                    }
                }
            }
        }
    }
    // cross-algorithm decode attempts
    rep.evals(1);
    let cross_pub = guard(|| PublicKey::from_bytes(&pubb, other_alg(alg)));
    match cross_pub {
        Err(p) => tol(v(format!("panic:{}", p.site()), format!("cross-algorithm from_bytes: {}", p.message)))?,
        Ok(Ok(k)) => tol(v(
            format!("cross-algorithm-public-accepted:{}", alg.name()),
            format!("{} public bytes decoded as {}", alg.name(), k),
        ))?,
        Ok(Err(_)) => {}
    }
    let swapped = format!("{}/{}", if alg == Alg::Ed { "secp256r1" } else { "ed25519" }, public.to_bytes_hex());
    match guard(|| swapped.parse::<PublicKey>()) {
        Err(p) => tol(v(format!("panic:{}", p.site()), format!("{swapped}: {}", p.message)))?,
        Ok(Ok(k)) => tol(v(format!("cross-algorithm-public-string-accepted:{}", alg.name()), format!("{swapped} -> {k}")))?,
        Ok(Err(_)) => {}
    }
    let pr = schema::PublicKey {
        algorithm: schema_alg(if alg == Alg::Ed { Alg::P256 } else { Alg::Ed }) as i32,
        key: pubb.clone(),
    };
    match guard(|| PublicKey::from_proto(&pr)) {
        Err(p) => tol(v(format!("panic:{}", p.site()), p.message))?,
        Ok(Ok(k)) => tol(v(format!("cross-algorithm-public-proto-accepted:{}", alg.name()), format!("{k}")))?,
        Ok(Err(_)) => {}
    }
    for bad_alg in [2i32, -1, 7] {
        let pr = schema::PublicKey {
            algorithm: bad_alg,
            key: pubb.clone(),
        };
        match guard(|| PublicKey::from_proto(&pr)) {
            Err(p) => tol(v(format!("panic:{}", p.site()), p.message))?,
            Ok(Ok(_)) => tol(v("unknown-algorithm-number-accepted".into(), format!("{bad_alg}")))?,
            Ok(Err(_)) => {}
        }
    }
    for (entry, r) in [
        ("PrivateKey::from_der_with_algorithm", guard(|| PrivateKey::from_der_with_algorithm(&der, other_alg(alg)).is_ok())),
        ("PublicKey::from_der_with_algorithm", guard(|| PublicKey::from_der_with_algorithm(&pder, other_alg(alg)).is_ok())),
        ("PrivateKey::from_pem_with_algorithm", guard(|| PrivateKey::from_pem_with_algorithm(&pem, other_alg(alg)).is_ok())),
        ("PublicKey::from_pem_with_algorithm", guard(|| PublicKey::from_pem_with_algorithm(&ppem, other_alg(alg)).is_ok())),
        ("KeyPair::from_private_key_der_with_algorithm", guard(|| KeyPair::from_private_key_der_with_algorithm(&kder, other_alg(alg)).is_ok())),
    ] {
        match r {
            Err(p) => tol(v(format!("panic:{}", p.site()), format!("{entry}: {}", p.message)))?,
            Ok(true) => tol(v(format!("cross-algorithm-der-pem-accepted:{entry}"), alg.name().to_string()))?,
            Ok(false) => {}
        }
    }
    // DER / PEM corruptions: no panic; if accepted, the key is a valid one (round-trips)
    for (_kind, d2) in corruptions(&pder, &mut tp, false).into_iter().chain(corruptions(&der, &mut tp, false)) {
        rep.evals(1);
        for r in [
            guard(|| PublicKey::from_der(&d2).map(|k| (k.to_bytes(), k.algorithm() as i32)).ok()),
            guard(|| PrivateKey::from_der(&d2).map(|k| (k.public().to_bytes(), k.algorithm() as i32)).ok()),
            guard(|| KeyPair::from_private_key_der(&d2).map(|k| (k.public().to_bytes(), k.algorithm() as i32)).ok()),
        ] {
            match r {
                Err(p) => tol(v(format!("panic:{}", p.site()), format!("DER decoding: {}", p.message)))?,
                Ok(Some((kb, a))) => {
                    let a = if a == 0 { Alg::Ed } else { Alg::P256 };
                    if independent_public_decode(a, &kb).is_none() {
                        tol(v("corrupted-der-gives-invalid-key".into(), hex::encode(&d2)))?;
                    }
                }
                Ok(None) => {}
            }
        }
    }
    let mut pems = vec![];
    for src in [ppem.to_string(), pem.to_string()] {
        pems.push(src.replace("PUBLIC", "PRIVATE"));
        pems.push(src.replace("-----BEGIN", "----BEGIN"));
        pems.push(src.replace("KEY", "KEYS"));
        let bytes = src.as_bytes();
        for _ in 0..16 {
            let mut b = bytes.to_vec();
            let i = tp.pick(b.len());
            b[i] ^= 1 << tp.pick(7);
            if let Ok(s) = String::from_utf8(b) {
                pems.push(s);
            }
        }
        for cut in [1usize, 10, 30] {
            if src.len() > cut {
                pems.push(src[..src.len() - cut].to_string());
            }
        }
    }
    for p2 in pems {
        rep.evals(1);
        for r in [
            guard(|| PublicKey::from_pem(&p2).is_ok()),
            guard(|| PrivateKey::from_pem(&p2).is_ok()),
            guard(|| KeyPair::from_private_key_pem(&p2).is_ok()),
        ] {
            if let Err(p) = r {
                tol(v(format!("panic:{}", p.site()), format!("PEM decoding: {}", p.message)))?;
            }
        }
    }
    // garbage string forms
    for s in [
        "".to_string(),
        "/".to_string(),
        "ed25519/".to_string(),
        "secp256r1/".to_string(),
        format!("ed25519/{}", "zz".repeat(32)),
        format!("ED25519/{}", public.to_bytes_hex()),
        public.to_bytes_hex(),
        format!("{}/{}", alg.name(), public.to_bytes_hex().to_uppercase()),
        format!("{}/{}x", alg.name(), public.to_bytes_hex()),
        format!(" {}", public),
    ] {
        for r in [guard(|| s.parse::<PublicKey>().map(|k| k.to_bytes())), guard(|| s.parse::<PrivateKey>().map(|k| k.public().to_bytes()))] {
            match r {
                Err(p) => tol(v(format!("panic:{}", p.site()), format!("from_str({s:?}): {}", p.message)))?,
                Ok(_) => {}
            }
        }
        // upper-case hex of the right key is the only one of these that may decode, to the same key
        if let Ok(Ok(k)) = guard(|| s.parse::<PublicKey>()) {
            if k != public {
                tol(v("garbage-key-string-accepted".into(), format!("{s:?} -> {k}")))?;
            }
        }
    }
    Ok(())
}

fn tol_r(ctx: &Ctx, r: Result<(), Violation>) -> Result<(), Violation> {
    match r {
        Err(vio) if ctx.tolerate(&vio) => Ok(()),
        o => o,
    }
}

/// (algorithm of the root key and of each next key, 0 = ed25519 / 1 = secp256r1; key seed)
type ProofCase = (Vec<u8>, u64);

/// The private key a token carries (the proof of an unsealed token, a protobuf encoding whose
/// algorithm is the one of the last block's next key) survives serialization for every sequence
/// of algorithms: the parsed token is the same token, and the key it holds still extends it.
fn proof_secret_case(case: &ProofCase, rep: &mut Report) -> Result<(), Violation> {
    use biscuit_auth::builder::{BiscuitBuilder, BlockBuilder};
    use biscuit_auth::{Biscuit, UnverifiedBiscuit};
    let (algs, seed) = case;
    let kp = |i: usize| KeyPlan { alg: if algs[i] == 0 { Alg::Ed } else { Alg::P256 }, seed: seed * 8 + i as u64 }.keypair();
    rep.evals(1);
    rep.nontrivial(hash64(case));
    rep.class(format!("proof-secret:algs={}", algs.iter().map(|a| a.to_string()).collect::<String>()));
    let r = guard(|| -> Result<(), String> {
        let root = kp(0);
        let mut token = BiscuitBuilder::new()
            .code("user(1)")
            .map_err(|e| format!("{e:?}"))?
            .build_with_key_pair(&root, biscuit_auth::datalog::SymbolTable::default(), &kp(1))
            .map_err(|e| format!("build: {e:?}"))?;
        for i in 2..algs.len() {
            // through the bytes at every step: the next block is signed with the key read back
            let bytes = token.to_vec().map_err(|e| format!("to_vec at step {i}: {e:?}"))?;
            let parsed = Biscuit::from(&bytes, root.public()).map_err(|e| format!("a token whose next keys have algorithms {:?} does not parse back at step {i}: {e:?}", &algs[1..i]))?;
            if parsed.to_vec().map_err(|e| format!("{e:?}"))? != bytes {
                return Err(format!("re-serialization differs at step {i}"));
            }
            let unverified = UnverifiedBiscuit::from(&bytes).map_err(|e| format!("unverified parse at step {i}: {e:?}"))?;
            let via_unverified = unverified
                .append_with_keypair(&kp(i), BlockBuilder::new().code(format!("step({i})")).map_err(|e| format!("{e:?}"))?)
                .map_err(|e| format!("unverified append at step {i}: {e:?}"))?;
            via_unverified
                .verify(root.public())
                .map_err(|e| format!("the token extended with the key read back by UnverifiedBiscuit does not verify at step {i}: {e:?}"))?;
            token = parsed
                .append_with_keypair(&kp(i), BlockBuilder::new().code(format!("step({i})")).map_err(|e| format!("{e:?}"))?)
                .map_err(|e| format!("append at step {i}: {e:?}"))?;
        }
        let bytes = token.to_vec().map_err(|e| format!("{e:?}"))?;
        Biscuit::from(&bytes, root.public()).map_err(|e| format!("final token (algorithms {:?}) does not parse back: {e:?}", algs))?;
        Ok(())
    });
    match r {
        Ok(Ok(())) => Ok(()),
        Ok(Err(e)) => Err(Violation::new("proof-secret-roundtrip".to_string(), e)),
        Err(p) => Err(Violation::new(format!("panic:{}", p.site()), p.message)),
    }
}

pub fn run(ctx: &Ctx, replay: Option<&serde_json::Value>) {
    if let Some(r) = replay {
        if r["sub"].as_str() == Some("proof-secret") {
            let case: ProofCase = serde_json::from_value(r["case"].clone()).expect("bad replay case");
            ctx.run_list("proof-secret", &[case], |c, r| proof_secret_case(c, r));
            return;
        }
        let case: Case = serde_json::from_value(r["case"].clone()).expect("bad replay case");
        ctx.run_list("keys", &[case], |c, r| test_case(ctx, c, r));
        return;
    }
    ctx.set_rule("keys of both algorithms from seeds x messages of 0-300 bytes: every encoding the API offers (raw, hex, algorithm/hex, PKCS#8 / SPKI DER and PEM with explicit algorithm and auto-detection, protobuf, KeyPair forms) must round-trip and yield the public key derived independently with the primitive crates; a signature verifies exactly under (key, message) and fails for another key, another message and EVERY truncation, extension and single-bit flip of the signature; every truncation / extension / single-bit flip of the raw public key, sampled corruptions of private keys, DER and PEM, algorithm tag swaps and cross-algorithm decoders must give an error or a key that an independent decoder also reads from those bytes; nothing panics; the private key a token carries as proof is round-tripped through serialization for all 16 algorithm sequences of (root, three next keys) and must still extend the parsed token; non-trivial = every case (all are corruptions that reach key validation); distinct = hash(case)");
    ctx.assume("ed25519-dalek and p256 are the trusted base, also used as independent decoders");
    // the private key inside a token: all 16 algorithm sequences (root, three next keys)
    let mut proof_cases: Vec<ProofCase> = vec![];
    for mask in 0..16u8 {
        for seed in 0..ctx.tier.pick(2, 40) as u64 {
            proof_cases.push(((0..4).map(|i| (mask >> i) & 1).collect(), 0x17_000 + seed));
        }
    }
    ctx.run_list("proof-secret", &proof_cases, |c, r| proof_secret_case(c, r));
    let cases = ctx.tier.pick(1200, 30_000);
    ctx.run_prop("keys", cases, || from_tape(200, gen_case), |c, r| test_case(ctx, c, r));
}
