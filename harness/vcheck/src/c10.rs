//! C10 - evaluation budgets are enforced
use biscuit_auth::builder as b;
use biscuit_auth::datalog::ExternFunc;
use biscuit_auth::verif_hooks::verif_clock;
use biscuit_auth::AuthorizerLimits;
use serde::{Deserialize, Serialize};
use serde_json::json;
use std::cell::Cell;
use std::collections::HashMap;
use std::sync::Arc;
use std::time::Duration;
use vcore::ast::*;
use vcore::refdl::*;
use vcore::runner::{Ctx, Report, Violation};
use vcore::tape::{from_tape, Tape};
use vcore::util::{guard, hash64};

/// one tick of the virtual clock
const C: Duration = Duration::from_millis(1);

#[derive(Clone, Copy, Debug, Serialize, Deserialize, PartialEq, Eq, Hash)]
pub enum Family {
    /// c1 <- c0, c2 <- c1, ...: k productive iterations, k+1 facts
    Chain,
    /// j(x,y,z) <- a(x), a(y), a(z): one iteration, n^3 facts
    ExpJoin,
    /// one iteration whose rule ticks once per binding
    ExpensiveIteration,
    /// ticks but derives nothing new (the derived fact is already there)
    ExpensiveNonProductive,
    /// cheap fixpoint, `check all` that ticks per binding
    ExpensiveCheck,
    /// cheap fixpoint, queries that tick per binding
    ExpensiveQuery,
    /// chain whose every step also ticks
    TickingChain,
}

#[derive(Clone, Copy, Debug, Serialize, Deserialize, PartialEq, Eq, Hash)]
pub enum Call {
    Run,
    Authorize,
    Query,
    QueryAll,
    QueryExactlyOne,
    /// the authorizer is replaced by the one restored from its snapshot: budgets already used
    /// and limit errors already met stay (only families without extern functions: a snapshot
    /// cannot carry them)
    SnapshotRestore,
}

#[derive(Clone, Debug, Serialize, Deserialize, Hash)]
pub struct Case {
    pub family: Family,
    pub n: u64,
    pub max_facts: u64,
    pub max_iterations: u64,
    /// max_time in ticks; u64::MAX stands for Duration::MAX
    pub max_time_ticks: u64,
    pub history: Vec<Call>,
    pub in_token: bool,
    /// the authorizer is built from a builder that went through its own snapshot first
    #[serde(default)]
    pub builder_snapshot: bool,
}

thread_local! {
    static TICKS: Cell<u64> = Cell::new(0);
}

fn v(sig: String, detail: String) -> Violation {
    Violation::new(sig, detail)
}

fn tick_expr(var: &str, result: bool) -> Expr {
    Expr {
        ops: vec![
            Op::Value(Term::v(var)),
            Op::Unary(Un::Ffi(if result { "tick".into() } else { "tock".into() })),
        ],
    }
}

fn a(i: i64) -> Pred {
    Pred::new("a", vec![Term::Int(i)])
}

/// the program (as an authorizer block) and the query used by Query* calls
pub fn program(case: &Case) -> (Block, Vec<Policy>, Rule) {
    let n = case.n as i64;
    let mut blk = Block::default();
    let mut query = Rule {
        head: Pred::new("q", vec![Term::v("i")]),
        body: vec![Pred::new("a", vec![Term::v("i")])],
        exprs: vec![],
        scopes: vec![],
    };
    let allow = vec![Policy {
        allow: true,
        queries: vec![Rule::query(vec![], vec![Expr { ops: vec![Op::Value(Term::Bool(true))] }], vec![])],
    }];
    match case.family {
        Family::Chain | Family::TickingChain => {
            blk.facts.push(Pred::new("c0", vec![Term::Int(1)]));
            blk.facts.push(a(1));
            for j in 0..n {
                blk.rules.push(Rule {
                    head: Pred::new(&format!("c{}", j + 1), vec![Term::v("i")]),
                    body: vec![Pred::new(&format!("c{}", j), vec![Term::v("i")])],
                    exprs: if case.family == Family::TickingChain { vec![tick_expr("i", true)] } else { vec![] },
                    scopes: vec![],
                });
            }
        }
        Family::ExpJoin => {
            for i in 0..n {
                blk.facts.push(a(i));
            }
            blk.rules.push(Rule {
                head: Pred::new("j", vec![Term::v("i"), Term::v("j"), Term::v("k")]),
                body: vec![
                    Pred::new("a", vec![Term::v("i")]),
                    Pred::new("a", vec![Term::v("j")]),
                    Pred::new("a", vec![Term::v("k")]),
                ],
                exprs: vec![],
                scopes: vec![],
            });
        }
        Family::ExpensiveIteration => {
            for i in 0..n {
                blk.facts.push(a(i));
            }
            blk.rules.push(Rule {
                head: Pred::new("r", vec![Term::v("i")]),
                body: vec![Pred::new("a", vec![Term::v("i")])],
                exprs: vec![tick_expr("i", true)],
                scopes: vec![],
            });
        }
        Family::ExpensiveNonProductive => {
            for i in 0..n {
                blk.facts.push(a(i));
            }
            blk.rules.push(Rule {
                head: Pred::new("a", vec![Term::v("i")]),
                body: vec![Pred::new("a", vec![Term::v("i")])],
                exprs: vec![tick_expr("i", true)],
                scopes: vec![],
            });
        }
        Family::ExpensiveCheck => {
            for i in 0..n {
                blk.facts.push(a(i));
            }
            blk.checks.push(Check {
                kind: CheckKind::All,
                queries: vec![Rule::query(vec![Pred::new("a", vec![Term::v("i")])], vec![tick_expr("i", true)], vec![])],
            });
        }
        Family::ExpensiveQuery => {
            for i in 0..n {
                blk.facts.push(a(i));
            }
            query.exprs.push(tick_expr("i", true));
        }
    }
    (blk, allow, query)
}

#[derive(Clone, Debug, Default)]
pub struct ModelCost {
    pub productive_iterations: u64,
    pub final_facts: u64,
    /// ticks spent by the fixpoint (all rounds, including the last non-productive one)
    pub fixpoint_ticks: u64,
}

fn counting_extern(name: &str, _l: Term, _r: Option<Term>) -> Option<Result<Term, String>> {
    match name {
        "tick" => {
            TICKS.with(|c| c.set(c.get() + 1));
            Some(Ok(Term::Bool(true)))
        }
        "tock" => {
            TICKS.with(|c| c.set(c.get() + 1));
            Some(Ok(Term::Bool(false)))
        }
        _ => None,
    }
}

pub fn model_cost(case: &Case) -> ModelCost {
    let (blk, _, _) = program(case);
    let mut w = RWorld::default();
    let origin: Origin = [if case.in_token { 0 } else { AUTH }].into_iter().collect();
    let owner = if case.in_token { 0 } else { AUTH };
    for f in &blk.facts {
        w.add_fact(origin.clone(), f.clone());
    }
    let trusted: Origin = [AUTH, 0].into_iter().collect();
    for r in &blk.rules {
        w.rules.push(ORule {
            owner,
            trusted: trusted.clone(),
            rule: r.clone(),
        });
    }
    TICKS.with(|c| c.set(0));
    let rounds = w.run(&counting_extern, 100_000).unwrap_or(0);
    ModelCost {
        productive_iterations: rounds as u64,
        final_facts: w.facts.len() as u64,
        fixpoint_ticks: TICKS.with(|c| c.get()),
    }
}

fn lib_externs() -> HashMap<String, ExternFunc> {
    let mut m = HashMap::new();
    for (name, res) in [("tick", true), ("tock", false)] {
        m.insert(
            name.to_string(),
            ExternFunc::new(Arc::new(move |_l: b::Term, _r: Option<b::Term>| {
                verif_clock::advance(C);
                Ok(b::Term::Bool(res))
            })),
        );
    }
    m
}

fn limits_of(case: &Case) -> AuthorizerLimits {
    AuthorizerLimits {
        max_facts: case.max_facts,
        max_iterations: case.max_iterations,
        max_time: if case.max_time_ticks == u64::MAX {
            Duration::MAX
        } else {
            C.checked_mul(case.max_time_ticks.min(1 << 20) as u32).unwrap_or(Duration::MAX)
        },
    }
}

pub fn gen_case(t: &mut Tape) -> Case {
    let family = *t.choose(&[
        Family::Chain,
        Family::ExpJoin,
        Family::ExpensiveIteration,
        Family::ExpensiveNonProductive,
        Family::ExpensiveCheck,
        Family::ExpensiveQuery,
        Family::TickingChain,
    ]);
    let n = match family {
        Family::ExpJoin => t.range(1, 8) as u64,
        Family::Chain | Family::TickingChain => t.range(1, 12) as u64,
        _ => t.range(1, 40) as u64,
    };
    let mut case = Case {
        family,
        n,
        max_facts: 0,
        max_iterations: 0,
        max_time_ticks: 0,
        history: vec![],
        in_token: t.chance(1, 3),
        builder_snapshot: false,
    };
    let m = model_cost(&case);
    let around = |t: &mut Tape, x: u64| -> u64 {
        match t.pick(8) {
            0 => 0,
            1 => 1,
            2 => x.saturating_sub(1),
            3 => x,
            4 => x + 1,
            5 => x + 2,
            6 => x / 2,
            _ => 1_000_000,
        }
    };
    let total_ticks = match family {
        Family::ExpensiveCheck | Family::ExpensiveQuery => n,
        _ => m.fixpoint_ticks,
    };
    // at least two of the three limits are usually non-binding, so that each budget is exercised
    let which = t.pick(4);
    case.max_iterations = if which == 0 || t.chance(1, 5) { around(t, m.productive_iterations) } else { 1_000_000 };
    case.max_facts = if which == 1 || t.chance(1, 5) { around(t, m.final_facts) } else { 1_000_000 };
    case.max_time_ticks = if which == 2 || t.chance(1, 5) {
        if t.chance(1, 12) {
            u64::MAX
        } else {
            around(t, total_ticks)
        }
    } else {
        1_000_000
    };
    let calls = [Call::Run, Call::Authorize, Call::Query, Call::QueryAll, Call::QueryExactlyOne];
    let len = t.range(1, 4);
    case.history = (0..len).map(|_| *t.choose(&calls)).collect();
    if matches!(case.family, Family::Chain | Family::ExpJoin) && t.chance(1, 3) {
        // a snapshot round trip somewhere after the first call, then at least one more call
        let at = t.range(1, case.history.len());
        case.history.insert(at, Call::SnapshotRestore);
        if at + 1 == case.history.len() {
            case.history.push(*t.choose(&calls));
        }
        case.builder_snapshot = t.chance(1, 2);
    }
    case
}

pub fn test_case(ctx: &Ctx, case: &Case, rep: &mut Report) -> Result<(), Violation> {
    let (blk, policies, query) = program(case);
    let m = model_cost(case);
    let limits = limits_of(case);
    let keys: Vec<biscuit_auth::PublicKey> = vec![];
    rep.class(format!("family:{:?}", case.family));
    rep.class(format!("history_len={}", case.history.len()));
    let near = |budget: u64, cost: u64| budget <= cost.saturating_mul(2) + 1 && budget.saturating_mul(2) + 1 >= cost;
    let total_ticks = match case.family {
        Family::ExpensiveCheck | Family::ExpensiveQuery => case.n,
        _ => m.fixpoint_ticks,
    };
    if near(case.max_iterations, m.productive_iterations)
        || near(case.max_facts, m.final_facts)
        || (case.max_time_ticks != u64::MAX && near(case.max_time_ticks, total_ticks))
        || case.history.len() >= 2
    {
        rep.nontrivial(hash64(case));
    }
    rep.sample(json!({"case": format!("{:?}", case), "model": format!("{:?}", m)}));

    // build (the virtual clock is per thread; enable before anything reads time)
    verif_clock::enable();
    struct Off;
    impl Drop for Off {
        fn drop(&mut self) {
            verif_clock::disable();
        }
    }
    let _off = Off;

    let built = guard(|| -> Result<biscuit_auth::Authorizer, String> {
        let mut ab = b::AuthorizerBuilder::new().set_extern_funcs(lib_externs()).limits(limits.clone());
        for p in &policies {
            ab = ab.policy(p.to_b(&keys)).map_err(|e| format!("{e:?}"))?;
        }
        if case.builder_snapshot && !case.in_token {
            // facts, rules and checks are added before the round trip in this mode
            for f in &blk.facts {
                ab = ab.fact(f.to_fact()).map_err(|e| format!("{e:?}"))?;
            }
            for r in &blk.rules {
                ab = ab.rule(r.to_b(&keys)).map_err(|e| format!("{e:?}"))?;
            }
            for c in &blk.checks {
                ab = ab.check(c.to_b(&keys)).map_err(|e| format!("{e:?}"))?;
            }
            let snap = ab.to_raw_snapshot().map_err(|e| format!("builder snapshot: {e:?}"))?;
            let restored = b::AuthorizerBuilder::from_raw_snapshot(&snap).map_err(|e| format!("builder restore: {e:?}"))?;
            return restored.build_unauthenticated().map_err(|e| format!("{e:?}"));
        }
        if case.in_token {
            let root = vcore::keys::KeyPlan { alg: vcore::keys::Alg::Ed, seed: 77 }.keypair();
            let next = vcore::keys::KeyPlan { alg: vcore::keys::Alg::Ed, seed: 78 }.keypair();
            let tok = blk
                .to_biscuit_builder(&keys)
                .map_err(|e| format!("{e:?}"))?
                .build_with_key_pair(&root, biscuit_auth::datalog::SymbolTable::default(), &next)
                .map_err(|e| format!("{e:?}"))?;
            ab.build(&tok).map_err(|e| format!("{e:?}"))
        } else {
            for f in &blk.facts {
                ab = ab.fact(f.to_fact()).map_err(|e| format!("{e:?}"))?;
            }
            for r in &blk.rules {
                ab = ab.rule(r.to_b(&keys)).map_err(|e| format!("{e:?}"))?;
            }
            for c in &blk.checks {
                ab = ab.check(c.to_b(&keys)).map_err(|e| format!("{e:?}"))?;
            }
            ab.build_unauthenticated().map_err(|e| format!("{e:?}"))
        }
    });
    let mut auth = match built {
        Ok(Ok(a)) => a,
        Ok(Err(e)) => return Err(v("build-error".into(), e)),
        Err(p) => return Err(v(format!("panic:{}", p.site()), format!("build: {}", p.message))),
    };
    let base_facts = blk.facts.len() as u64;
    let needs_more_iterations = m.productive_iterations > case.max_iterations;
    let needs_more_facts = m.final_facts > case.max_facts;
    let needs_more_time = case.max_time_ticks != u64::MAX && m.fixpoint_ticks > case.max_time_ticks.saturating_add(1);
    let over_budget = needs_more_iterations || needs_more_facts || needs_more_time;
    let max_time = limits.max_time;
    let mut failed_before = false;
    let tolerate = |vio: Violation| -> Result<(), Violation> {
        if ctx.tolerate(&vio) {
            Ok(())
        } else {
            Err(vio)
        }
    };
    for (step, call) in case.history.iter().enumerate() {
        rep.evals(1);
        let before = verif_clock::elapsed().unwrap_or_default();
        // `run()` after a completed fixpoint only reports the cached execution time: it does no
        // evaluation, so it is not "a call that succeeds beyond the budget"
        let cached_run = matches!(call, Call::Run) && auth.execution_time().is_some();
        let r = guard(|| -> Result<String, biscuit_auth::error::Token> {
            match call {
                Call::SnapshotRestore => {
                    let snap = auth.to_raw_snapshot().map_err(biscuit_auth::error::Token::Format)?;
                    auth = biscuit_auth::Authorizer::from_raw_snapshot(&snap)?;
                    Ok("restored".to_string())
                }
                Call::Run => auth.run().map(|d| format!("{d:?}")),
                Call::Authorize => auth.authorize().map(|i| format!("{i}")),
                Call::Query => auth.query::<_, b::Fact, _>(query.to_b(&keys)).map(|v| format!("{}", v.len())),
                Call::QueryAll => auth.query_all::<_, b::Fact, _>(query.to_b(&keys)).map(|v| format!("{}", v.len())),
                Call::QueryExactlyOne => auth.query_exactly_one::<_, b::Fact, _>(query.to_b(&keys)).map(|_| "1".to_string()),
            }
        });
        let now = verif_clock::elapsed().unwrap_or_default();
        let ctx_s = || format!("step {step} {:?} of {:?}\nmodel {:?}\nelapsed {:?} (this call {:?})", call, case, m, now, now - before);
        let r = match r {
            Err(p) => {
                tolerate(v(
                    format!("panic:{}:{:?}", p.site(), classify_panic(&p.message)),
                    format!("{} at {}:{}\n{}", p.message, p.file, p.line, ctx_s()),
                ))?;
                // the authorizer may be in an unknown state: stop this history
                return Ok(());
            }
            Ok(r) => r,
        };
        let fam = format!("{:?}", case.family);
        if matches!(call, Call::SnapshotRestore) {
            // not an evaluation: nothing to check on the call itself, the invariants go on with
            // the restored object (iterations, facts and a limit error already met stay)
            match &r {
                Ok(_) => {
                    rep.class("call:snapshot_restore");
                    continue;
                }
                Err(e) => {
                    tolerate(v(format!("snapshot-restore-error:{fam}"), format!("{e:?}\n{}", ctx_s())))?;
                    return Ok(());
                }
            }
        }
        match &r {
            Ok(_) => {
                rep.class("call:ok");
                // I2
                if auth.iterations() > limits.max_iterations {
                    tolerate(v(
                        format!("ok-beyond-iteration-budget:{fam}"),
                        format!("iterations() = {} > {}\n{}", auth.iterations(), limits.max_iterations, ctx_s()),
                    ))?;
                }
                if auth.fact_count() as u64 > limits.max_facts {
                    tolerate(v(
                        format!("ok-beyond-fact-budget:{fam}"),
                        format!("fact_count() = {} > {}\n{}", auth.fact_count(), limits.max_facts, ctx_s()),
                    ))?;
                }
                if now > max_time.saturating_add(C) && !cached_run {
                    tolerate(v(
                        format!("ok-beyond-time-budget:{fam}:{:?}", call),
                        format!("virtual time {:?} > max_time {:?} + one tick\n{}", now, max_time, ctx_s()),
                    ))?;
                }
                // I3
                if over_budget {
                    tolerate(v(
                        format!(
                            "ok-although-program-needs-more:{}:{fam}",
                            if needs_more_iterations { "iterations" } else if needs_more_facts { "facts" } else { "time" }
                        ),
                        ctx_s(),
                    ))?;
                }
                // I5
                if failed_before && !cached_run {
                    tolerate(v(format!("ok-after-limit-error:{fam}:{:?}", call), ctx_s()))?;
                }
            }
            Err(e) => {
                let es = format!("{e:?}");
                rep.class(format!("call:err:{}", es.split('(').take(2).collect::<Vec<_>>().join("(")));
                let is_limit = matches!(e, biscuit_auth::error::Token::RunLimit(_));
                let unexpected_query_result = es.contains("UnexpectedQueryResult");
                if is_limit && !unexpected_query_result {
                    failed_before = true;
                    // I4 promptness
                    if es.contains("Timeout") && now > max_time.saturating_add(C * 8) {
                        tolerate(v(
                            format!("timeout-not-prompt:{fam}"),
                            format!("time limit error after {:?} with max_time {:?} (> 8 ticks late)\n{}", now, max_time, ctx_s()),
                        ))?;
                    }
                    if es.contains("TooManyFacts") && auth.fact_count() as u64 > 2 * limits.max_facts + 64 {
                        tolerate(v(
                            format!("fact-limit-not-prompt:{fam}"),
                            format!("fact limit error holding {} facts with max_facts {}\n{}", auth.fact_count(), limits.max_facts, ctx_s()),
                        ))?;
                    }
                } else if !unexpected_query_result && !over_budget && !failed_before {
                    // an error that is not a limit on a program within budget
                    let within = m.productive_iterations < case.max_iterations
                        && m.final_facts < case.max_facts
                        && (case.max_time_ticks == u64::MAX || total_ticks * 4 + 4 < case.max_time_ticks);
                    if within && !matches!(call, Call::QueryExactlyOne) {
                        tolerate(v(format!("error-within-budget:{fam}"), format!("{es}\n{}", ctx_s())))?;
                    }
                }
            }
        }
        let _ = base_facts;
    }
    Ok(())
}

fn classify_panic(msg: &str) -> &'static str {
    if msg.contains("subtract with overflow") {
        "subtract-overflow"
    } else if msg.contains("overflow when adding duration") || msg.contains("called `Option::unwrap()` on a `None` value") {
        "instant-add"
    } else {
        "other"
    }
}

pub fn run(ctx: &Ctx, replay: Option<&serde_json::Value>) {
    if let Some(r) = replay {
        let case: Case = serde_json::from_value(r["case"].clone()).expect("bad replay case");
        ctx.run_list("budgets", &[case], |c, r| test_case(ctx, c, r));
        return;
    }
    ctx.set_rule("program families with model-known cost (chain, exponential join, expensive iteration / non-productive iteration / check / query ticking a virtual clock through an extern function, ticking chain) x limit triples from boundary sets around the model cost (0, 1, cost-1, cost, cost+1, cost+2, cost/2, big, Duration::MAX) x call histories of length 1-4 over run/authorize/query/query_all/query_exactly_one, in an authorizer or in a token; invariants I1-I5 after every call; non-trivial = a limit within a factor 2 of the model cost, or a history of >=2 calls; distinct = hash(case)");
    ctx.assume("time is a per-thread virtual clock (hook H1) advanced only by the extern function: 'promptly' = within 8 ticks / 2x facts + 64");
    let cases = ctx.tier.pick(240_000, 6_000_000);
    ctx.run_prop("budgets", cases, || from_tape(64, gen_case), |c, r| test_case(ctx, c, r));
}
