//! C09 - untrusted bytes never crash or hang the library
//!
//! parent: generates inputs, streams them to child processes (`vcheck --c09-worker`), attributes
//! a death or a watchdog expiry to the unacknowledged input. child: runs the entry point and the
//! accessor sweep on every object obtained, catching panics.
use biscuit_auth::builder as b;
use biscuit_auth::format::schema;
use biscuit_auth::{Authorizer, AuthorizerLimits, Biscuit, KeyPair, PrivateKey, PublicKey, ThirdPartyRequest, UnverifiedBiscuit};
use prost::Message;
use serde::{Deserialize, Serialize};
use serde_json::json;
use std::io::{BufRead, BufReader, Write};
use std::process::{Command, Stdio};
use std::sync::mpsc;
use std::time::Duration;
use vcore::gen::*;
use vcore::hostile::Adv;
use vcore::keys::{Alg, KeyPlan};
use vcore::refcrypto::{RSecret, RefSigner};
use vcore::runner::{Ctx, Tier, Violation};
use vcore::tape::Tape;
use vcore::tokens::*;
use vcore::util::{derive_seed, guard, hash64};

#[derive(Clone, Debug, Serialize, Deserialize, Hash)]
pub enum Input {
    /// token bytes under the well-known root
    Token(Vec<u8>),
    TokenBase64(String),
    Snapshot(Vec<u8>),
    SnapshotBase64(String),
    Policies(Vec<u8>),
    ThirdPartyRequest(Vec<u8>),
    /// (valid token, third-party block bytes)
    ThirdPartyBlock(Vec<u8>, Vec<u8>),
    KeyString(String),
    KeyBytes(Vec<u8>),
    Pem(String),
    Der(Vec<u8>),
    Datalog(String),
}

fn kind_of(i: &Input) -> &'static str {
    match i {
        Input::Token(_) => "token",
        Input::TokenBase64(_) => "token_base64",
        Input::Snapshot(_) => "snapshot",
        Input::SnapshotBase64(_) => "snapshot_base64",
        Input::Policies(_) => "policies",
        Input::ThirdPartyRequest(_) => "third_party_request",
        Input::ThirdPartyBlock(..) => "third_party_block",
        Input::KeyString(_) => "key_string",
        Input::KeyBytes(_) => "key_bytes",
        Input::Pem(_) => "pem",
        Input::Der(_) => "der",
        Input::Datalog(_) => "datalog",
    }
}

fn root() -> KeyPlan {
    KeyPlan { alg: Alg::Ed, seed: 0xc09 }
}
fn k(i: u64, alg: Alg) -> KeyPlan {
    KeyPlan { alg, seed: 0xc0900 + i }
}

fn small_limits() -> AuthorizerLimits {
    AuthorizerLimits {
        max_facts: 500,
        max_iterations: 20,
        max_time: Duration::from_millis(200),
    }
}

// ---------------------------------------------------------------------------------------------
// the sweep (runs in the child)
// ---------------------------------------------------------------------------------------------

pub struct Sweep {
    pub panics: Vec<(String, String, String)>, // (entry, site, message)
    pub reached: Vec<&'static str>,
}

impl Sweep {
    fn call<T>(&mut self, entry: &str, f: impl FnOnce() -> T) -> Option<T> {
        match guard(f) {
            Ok(v) => Some(v),
            Err(p) => {
                self.panics.push((entry.to_string(), p.site(), format!("{} (line {})", p.message, p.line)));
                None
            }
        }
    }

    fn authorizer(&mut self, mut a: Authorizer, depth: usize) {
        self.reached.push("authorizer");
        self.call("Authorizer::to_string", || a.to_string());
        self.call("Authorizer::print_world", || a.print_world());
        self.call("Authorizer::dump", || {
            let _ = a.dump();
        });
        self.call("Authorizer::dump_code", || a.dump_code());
        self.call("Authorizer::save", || a.save().map(|p| p.serialize()));
        self.call("Authorizer::limits", || a.limits().clone());
        let snap = self.call("Authorizer::snapshot", || a.to_raw_snapshot().ok()).flatten();
        self.call("Authorizer::to_base64_snapshot", || a.to_base64_snapshot().ok());
        let mut a2 = a.clone();
        self.call("Authorizer::run", || a.run().is_ok());
        self.call("Authorizer::authorize", || a.authorize().is_ok());
        self.call("Authorizer::authorize(2)", || a.authorize().is_ok());
        self.call("Authorizer::query", || a.query::<_, b::Fact, _>("data($x) <- resource($x)").map(|v| v.len()).ok());
        self.call("Authorizer::query_all", || a.query_all::<_, b::Fact, _>("data($x, $y) <- right($x, $y)").map(|v| v.len()).ok());
        self.call("Authorizer::query_exactly_one", || a.query_exactly_one::<_, b::Fact, _>("data($x) <- user($x)").is_ok());
        self.call("Authorizer::authorize_with_limits", || a2.authorize_with_limits(small_limits()).is_ok());
        self.call("Authorizer::iterations", || (a.iterations(), a.fact_count(), a.execution_time()));
        self.call("Authorizer::to_string(after)", || a.to_string());
        self.call("Authorizer::dump_code(after)", || a.dump_code());
        let snap2 = self.call("Authorizer::snapshot(after)", || a.to_raw_snapshot().ok()).flatten();
        if depth == 0 {
            for s in [snap, snap2].into_iter().flatten() {
                if let Some(Ok(r)) = self.call("Authorizer::from_raw_snapshot(own)", || Authorizer::from_raw_snapshot(&s)) {
                    self.authorizer(r, 1);
                }
            }
        }
    }

    fn token(&mut self, t: &Biscuit, depth: usize) {
        self.reached.push("token");
        let n = t.block_count();
        self.call("Biscuit::print", || t.print());
        self.call("Biscuit::to_string", || t.to_string());
        for i in (0..=n + 2).chain([usize::MAX, usize::MAX - 1]) {
            self.call("Biscuit::print_block_source", || t.print_block_source(i).is_ok());
            self.call("Biscuit::block_version", || t.block_version(i).is_ok());
            self.call("Biscuit::block_symbols", || t.block_symbols(i).is_ok());
            self.call("Biscuit::block_public_keys", || t.block_public_keys(i).is_ok());
            self.call("Biscuit::block_external_key", || t.block_external_key(i).is_ok());
        }
        self.call("Biscuit::context", || t.context());
        self.call("Biscuit::revocation_identifiers", || t.revocation_identifiers());
        self.call("Biscuit::external_public_keys", || t.external_public_keys());
        self.call("Biscuit::root_key_id", || t.root_key_id());
        let bytes = self.call("Biscuit::to_vec", || t.to_vec().ok()).flatten();
        self.call("Biscuit::to_base64", || t.to_base64().ok());
        self.call("Biscuit::serialized_size", || t.serialized_size().ok());
        let sealed = self.call("Biscuit::seal", || t.seal().ok()).flatten();
        let kp = k(50, Alg::Ed).keypair();
        self.call("Biscuit::append(empty)", || t.append_with_keypair(&kp, b::BlockBuilder::new()).is_ok());
        let appended = self
            .call("Biscuit::append", || {
                t.append_with_keypair(&kp, b::BlockBuilder::new().code("extra(\"appended\", 1); check if resource($r)").unwrap())
                    .ok()
            })
            .flatten();
        let ext = k(51, Alg::Ed).keypair();
        let tp = self
            .call("Biscuit::third_party", || {
                let req = t.third_party_request().ok()?;
                let blk = req
                    .create_block(&ext.private(), b::BlockBuilder::new().code("tp(1); check if tp($x)").unwrap())
                    .ok()?;
                t.append_third_party_with_keypair(ext.public(), blk, k(52, Alg::Ed).keypair()).ok()
            })
            .flatten();
        if let Some(Ok(a)) = self.call("Biscuit::authorizer", || t.authorizer()) {
            self.authorizer(a, 0);
        }
        let built = self.call("AuthorizerBuilder::build", || {
            b::AuthorizerBuilder::new()
                .code("resource(\"file1\"); operation(\"read\"); user(1); check if true; allow if right($x, $y); allow if true; deny if false")
                .unwrap()
                .limits(small_limits())
                .build(t)
        });
        if let Some(Ok(a)) = built {
            self.authorizer(a, 0);
        }
        if depth == 0 {
            for t2 in [sealed, appended, tp].into_iter().flatten() {
                self.token(&t2, 1);
            }
            if let Some(b) = bytes {
                if let Some(Ok(u)) = self.call("UnverifiedBiscuit::from(own bytes)", || UnverifiedBiscuit::from(&b)) {
                    self.unverified(&u, 1);
                }
            }
        }
    }

    fn unverified(&mut self, u: &UnverifiedBiscuit, depth: usize) {
        self.reached.push("unverified");
        let n = u.block_count();
        for i in (0..=n + 2).chain([usize::MAX]) {
            self.call("UnverifiedBiscuit::print_block_source", || u.print_block_source(i).is_ok());
            self.call("UnverifiedBiscuit::block_version", || u.block_version(i).is_ok());
        }
        self.call("UnverifiedBiscuit::accessors", || (u.revocation_identifiers(), u.external_public_keys(), u.root_key_id()));
        self.call("UnverifiedBiscuit::to_vec", || u.to_vec().ok());
        self.call("UnverifiedBiscuit::to_base64", || u.to_base64().ok());
        self.call("UnverifiedBiscuit::seal", || u.seal().is_ok());
        let kp = k(60, Alg::Ed).keypair();
        self.call("UnverifiedBiscuit::append", || u.append_with_keypair(&kp, b::BlockBuilder::new().code("extra(2)").unwrap()).is_ok());
        let ext = k(61, Alg::P256).keypair();
        let tp = self
            .call("UnverifiedBiscuit::third_party", || {
                let req = u.third_party_request().ok()?;
                let blk = req.create_block(&ext.private(), b::BlockBuilder::new().code("tp(2)").unwrap()).ok()?;
                u.append_third_party_with_keypair(&blk.serialize().ok()?, k(62, Alg::Ed).keypair()).ok()
            })
            .flatten();
        if depth == 0 {
            if let Some(Ok(t)) = self.call("UnverifiedBiscuit::verify", || u.clone().verify(root().public())) {
                self.token(&t, 1);
            }
            if let Some(u2) = tp {
                self.unverified(&u2, 1);
            }
        }
    }

    pub fn run(&mut self, input: &Input) {
        let rootp = root().public();
        match input {
            Input::Token(bytes) => {
                if let Some(Ok(t)) = self.call("Biscuit::from", || Biscuit::from(bytes, rootp)) {
                    self.token(&t, 0);
                }
                if let Some(Ok(t)) = self.call("Biscuit::unsafe_deprecated_deserialize", || Biscuit::unsafe_deprecated_deserialize(bytes, rootp)) {
                    self.token(&t, 1);
                }
                if let Some(Ok(u)) = self.call("UnverifiedBiscuit::from", || UnverifiedBiscuit::from(bytes)) {
                    self.unverified(&u, 0);
                }
                if let Some(Ok(u)) = self.call("UnverifiedBiscuit::unsafe_deprecated_deserialize", || UnverifiedBiscuit::unsafe_deprecated_deserialize(bytes)) {
                    self.unverified(&u, 1);
                }
                // key provider closures
                self.call("Biscuit::from(key provider)", || {
                    Biscuit::from(bytes, |id: Option<u32>| if id == Some(7) { Err(biscuit_auth::error::Format::UnknownPublicKey) } else { Ok(rootp) }).is_ok()
                });
            }
            Input::TokenBase64(s) => {
                if let Some(Ok(t)) = self.call("Biscuit::from_base64", || Biscuit::from_base64(s, rootp)) {
                    self.token(&t, 0);
                }
                if let Some(Ok(u)) = self.call("UnverifiedBiscuit::from_base64", || UnverifiedBiscuit::from_base64(s)) {
                    self.unverified(&u, 0);
                }
            }
            Input::Snapshot(bytes) => {
                if let Some(Ok(a)) = self.call("Authorizer::from_raw_snapshot", || Authorizer::from_raw_snapshot(bytes)) {
                    self.authorizer(a, 0);
                }
                if let Some(Ok(ab)) = self.call("AuthorizerBuilder::from_raw_snapshot", || b::AuthorizerBuilder::from_raw_snapshot(bytes)) {
                    self.call("AuthorizerBuilder::dump_code", || ab.dump_code());
                    self.call("AuthorizerBuilder::snapshot", || ab.to_raw_snapshot().is_ok());
                    if let Some(Ok(a)) = self.call("AuthorizerBuilder::build_unauthenticated", || ab.build_unauthenticated()) {
                        self.authorizer(a, 0);
                    }
                }
                if let Ok(s) = schema::AuthorizerSnapshot::decode(&bytes[..]) {
                    if let Some(Ok(a)) = self.call("Authorizer::from_snapshot", || Authorizer::from_snapshot(s.clone())) {
                        self.authorizer(a, 1);
                    }
                    self.call("AuthorizerBuilder::from_snapshot", || b::AuthorizerBuilder::from_snapshot(s).is_ok());
                }
            }
            Input::SnapshotBase64(s) => {
                if let Some(Ok(a)) = self.call("Authorizer::from_base64_snapshot", || Authorizer::from_base64_snapshot(s)) {
                    self.authorizer(a, 0);
                }
                self.call("AuthorizerBuilder::from_base64_snapshot", || b::AuthorizerBuilder::from_base64_snapshot(s).is_ok());
            }
            Input::Policies(bytes) => {
                if let Some(Ok(a)) = self.call("Authorizer::from", || Authorizer::from(bytes)) {
                    self.authorizer(a, 0);
                }
                self.call("AuthorizerPolicies::deserialize", || {
                    biscuit_auth::builder::AuthorizerBuilder::new();
                    Authorizer::from(bytes).and_then(|a| a.save()).and_then(|p| p.serialize()).is_ok()
                });
            }
            Input::ThirdPartyRequest(bytes) => {
                let ext = k(70, Alg::Ed).keypair();
                if let Some(Ok(r)) = self.call("ThirdPartyRequest::deserialize", || ThirdPartyRequest::deserialize(bytes)) {
                    self.reached.push("third_party_request");
                    self.call("ThirdPartyRequest::serialize", || r.serialize().is_ok());
                    self.call("ThirdPartyRequest::create_block", || {
                        r.create_block(&ext.private(), b::BlockBuilder::new().code("tp(3)").unwrap()).and_then(|b| b.serialize()).is_ok()
                    });
                }
                self.call("ThirdPartyRequest::deserialize_base64", || ThirdPartyRequest::deserialize_base64(base64::encode_config(bytes, base64::URL_SAFE)).is_ok());
                self.call("ThirdPartyRequest::deserialize_base64(raw)", || ThirdPartyRequest::deserialize_base64(bytes).is_ok());
            }
            Input::ThirdPartyBlock(token, slice) => {
                if let Ok(u) = UnverifiedBiscuit::from(token) {
                    if let Some(Ok(u2)) = self.call("UnverifiedBiscuit::append_third_party", || u.append_third_party(slice)) {
                        self.unverified(&u2, 0);
                    }
                    self.call("UnverifiedBiscuit::append_third_party_base64", || {
                        u.append_third_party_base64(base64::encode_config(slice, base64::URL_SAFE)).is_ok()
                    });
                    self.call("UnverifiedBiscuit::append_third_party_base64(raw)", || u.append_third_party_base64(slice).is_ok());
                }
            }
            Input::KeyString(s) => {
                if let Some(Ok(kk)) = self.call("PublicKey::from_str", || s.parse::<PublicKey>()) {
                    self.reached.push("key");
                    self.call("PublicKey::print", || (kk.to_string(), kk.print(), kk.to_bytes_hex(), kk.to_der().is_ok(), kk.to_pem().is_ok(), kk.to_proto()));
                }
                if let Some(Ok(kk)) = self.call("PrivateKey::from_str", || s.parse::<PrivateKey>()) {
                    self.reached.push("key");
                    self.call("PrivateKey::public", || (kk.public(), kk.to_prefixed_string(), kk.to_der().is_ok(), kk.to_pem().is_ok()));
                    self.call("KeyPair::from(private).sign", || KeyPair::from(&kk).sign(b"msg").is_ok());
                }
                for alg in [b::Algorithm::Ed25519, b::Algorithm::Secp256r1] {
                    self.call("PublicKey::from_bytes_hex", || PublicKey::from_bytes_hex(s, alg).is_ok());
                    self.call("PrivateKey::from_bytes_hex", || PrivateKey::from_bytes_hex(s, alg).is_ok());
                }
                self.call("Algorithm::try_from", || std::convert::TryFrom::try_from(s.as_str()).map(|a: b::Algorithm| a.to_string()).is_ok());
            }
            Input::KeyBytes(bytes) => {
                for alg in [b::Algorithm::Ed25519, b::Algorithm::Secp256r1] {
                    if let Some(Ok(kk)) = self.call("PublicKey::from_bytes", || PublicKey::from_bytes(bytes, alg)) {
                        self.reached.push("key");
                        self.call("PublicKey::verify_signature", || {
                            biscuit_auth::verif_hooks::Signature::from_bytes(bytes).map(|s| kk.verify_signature(b"m", &s).is_ok())
                        });
                    }
                    if let Some(Ok(kk)) = self.call("PrivateKey::from_bytes", || PrivateKey::from_bytes(bytes, alg)) {
                        self.reached.push("key");
                        self.call("PrivateKey::public", || kk.public());
                    }
                }
                for alg in [schema::public_key::Algorithm::Ed25519, schema::public_key::Algorithm::Secp256r1] {
                    self.call("KeyPair::from_bytes", || KeyPair::from_bytes(bytes, alg).map(|k| k.sign(b"x").is_ok()).is_ok());
                }
                for a in [0i32, 1, 2, -1] {
                    self.call("PublicKey::from_proto", || {
                        PublicKey::from_proto(&schema::PublicKey {
                            algorithm: a,
                            key: bytes.clone(),
                        })
                        .is_ok()
                    });
                }
                // the bytes as a signature under a valid key
                self.call("verify_signature(garbage signature)", || {
                    let kp = k(80, Alg::P256).keypair();
                    let kp2 = k(81, Alg::Ed).keypair();
                    biscuit_auth::verif_hooks::Signature::from_bytes(bytes)
                        .map(|s| (kp.public().verify_signature(b"m", &s).is_ok(), kp2.public().verify_signature(b"m", &s).is_ok()))
                        .is_ok()
                });
            }
            Input::Pem(s) => {
                self.call("PublicKey::from_pem", || PublicKey::from_pem(s).is_ok());
                self.call("PrivateKey::from_pem", || PrivateKey::from_pem(s).is_ok());
                self.call("KeyPair::from_private_key_pem", || KeyPair::from_private_key_pem(s).is_ok());
                for alg in [b::Algorithm::Ed25519, b::Algorithm::Secp256r1] {
                    self.call("PublicKey::from_pem_with_algorithm", || PublicKey::from_pem_with_algorithm(s, alg).is_ok());
                    self.call("PrivateKey::from_pem_with_algorithm", || PrivateKey::from_pem_with_algorithm(s, alg).is_ok());
                    self.call("KeyPair::from_private_key_pem_with_algorithm", || KeyPair::from_private_key_pem_with_algorithm(s, alg).is_ok());
                }
            }
            Input::Der(bytes) => {
                self.call("PublicKey::from_der", || PublicKey::from_der(bytes).is_ok());
                self.call("PrivateKey::from_der", || PrivateKey::from_der(bytes).is_ok());
                self.call("KeyPair::from_private_key_der", || KeyPair::from_private_key_der(bytes).is_ok());
                for alg in [b::Algorithm::Ed25519, b::Algorithm::Secp256r1] {
                    self.call("PublicKey::from_der_with_algorithm", || PublicKey::from_der_with_algorithm(bytes, alg).is_ok());
                    self.call("PrivateKey::from_der_with_algorithm", || PrivateKey::from_der_with_algorithm(bytes, alg).is_ok());
                }
            }
            Input::Datalog(s) => {
                use std::convert::TryFrom;
                if let Some(Ok(f)) = self.call("Fact::try_from", || b::Fact::try_from(s.as_str())) {
                    self.reached.push("datalog");
                    self.call("Fact::to_string", || f.to_string());
                    self.call("BlockBuilder::fact", || b::BlockBuilder::new().fact(f.clone()).map(|b| b.to_string()).is_ok());
                }
                if let Some(Ok(r)) = self.call("Rule::try_from", || b::Rule::try_from(s.as_str())) {
                    self.reached.push("datalog");
                    self.call("Rule::to_string", || r.to_string());
                    self.call("Rule::validate", || (r.validate_parameters().is_ok(), r.validate_variables().is_ok()));
                    self.call("BlockBuilder::rule", || b::BlockBuilder::new().rule(r.clone()).map(|b| b.to_string()).is_ok());
                }
                if let Some(Ok(c)) = self.call("Check::try_from", || b::Check::try_from(s.as_str())) {
                    self.reached.push("datalog");
                    self.call("Check::to_string", || c.to_string());
                    self.call("BlockBuilder::check", || b::BlockBuilder::new().check(c.clone()).map(|b| b.to_string()).is_ok());
                }
                if let Some(Ok(p)) = self.call("Policy::try_from", || b::Policy::try_from(s.as_str())) {
                    self.reached.push("datalog");
                    self.call("Policy::to_string", || p.to_string());
                    self.call("AuthorizerBuilder::policy", || b::AuthorizerBuilder::new().policy(p.clone()).map(|a| a.dump_code()).is_ok());
                }
                self.call("biscuit_parser::parse_source", || biscuit_parser::parser::parse_source(s).is_ok());
                self.call("biscuit_parser::parse_block_source", || biscuit_parser::parser::parse_block_source(s).is_ok());
                let root_kp = root().keypair();
                if let Some(Ok(bb)) = self.call("BlockBuilder::code", || b::BlockBuilder::new().code(s)) {
                    self.reached.push("datalog");
                    self.call("BlockBuilder::to_string", || bb.to_string());
                    // the accepted block goes into a token, as a first-party and as a third-party block
                    let base = self.call("base token", || {
                        b::BiscuitBuilder::new()
                            .code("user(1)")
                            .unwrap()
                            .build_with_key_pair(&root_kp, biscuit_auth::datalog::SymbolTable::default(), &k(91, Alg::Ed).keypair())
                            .unwrap()
                    });
                    if let Some(base) = base {
                        if let Some(Ok(t)) = self.call("Biscuit::append(parsed block)", || base.append_with_keypair(&k(92, Alg::Ed).keypair(), bb.clone())) {
                            self.call("Biscuit::print(parsed block)", || t.print());
                        }
                        self.call("ThirdPartyRequest::create_block(parsed block)", || {
                            base.third_party_request().and_then(|r| r.create_block(&k(93, Alg::P256).keypair().private(), bb.clone())).is_ok()
                        });
                    }
                }
                if let Some(Ok(bb)) = self.call("BiscuitBuilder::code", || b::BiscuitBuilder::new().code(s)) {
                    self.call("BiscuitBuilder::dump_code", || (bb.dump_code(), bb.to_string()));
                    if let Some(Ok(t)) = self.call("BiscuitBuilder::build", || bb.build_with_key_pair(&root_kp, biscuit_auth::datalog::SymbolTable::default(), &k(90, Alg::Ed).keypair())) {
                        self.token(&t, 1);
                    }
                }
                if let Some(Ok(ab)) = self.call("AuthorizerBuilder::code", || b::AuthorizerBuilder::new().code(s)) {
                    self.reached.push("datalog");
                    self.call("AuthorizerBuilder::dump_code", || ab.dump_code());
                    self.call("AuthorizerBuilder::snapshot", || ab.to_raw_snapshot().is_ok());
                    if let Some(Ok(a)) = self.call("AuthorizerBuilder::build_unauthenticated", || ab.limits(small_limits()).build_unauthenticated()) {
                        self.authorizer(a, 0);
                    }
                }
            }
        }
    }
}

/// child entry point: one JSON input per line on stdin, one JSON report per line on stdout
pub fn worker() {
    vcore::util::install_panic_hook();
    // the stack of a main thread: deep nesting is part of the inputs, and overflowing a normal
    // stack is a crash
    let _ = std::thread::Builder::new().stack_size(8 << 20).spawn(worker_loop).unwrap().join();
}

fn worker_loop() {
    let stdin = std::io::stdin();
    let stdout = std::io::stdout();
    for line in stdin.lock().lines() {
        let Ok(line) = line else { break };
        let Ok(v) = serde_json::from_str::<serde_json::Value>(&line) else { continue };
        let id = v["id"].as_u64().unwrap_or(0);
        let input: Input = match serde_json::from_value(v["input"].clone()) {
            Ok(i) => i,
            Err(_) => continue,
        };
        let mut s = Sweep {
            panics: vec![],
            reached: vec![],
        };
        s.run(&input);
        let (panics, reached) = (s.panics, s.reached);
        let mut out = stdout.lock();
        let _ = writeln!(out, "{}", json!({"id": id, "panics": panics, "reached": reached}));
        let _ = out.flush();
    }
}

// ---------------------------------------------------------------------------------------------
// generators (parent)
// ---------------------------------------------------------------------------------------------

fn sign_block(t: &mut Tape, payload: Vec<u8>) -> Vec<u8> {
    let rs = |kp: KeyPlan| RSecret::from_keypair(&kp.keypair());
    let plain = schema::Block {
        symbols: vec!["plain".into()],
        context: None,
        version: Some(3),
        facts_v2: vec![],
        rules_v2: vec![],
        checks_v2: vec![],
        scope: vec![],
        public_keys: vec![],
    }
    .encode_to_vec();
    let alg = |t: &mut Tape| if t.chance(1, 4) { Alg::P256 } else { Alg::Ed };
    let version = if t.chance(1, 3) { 0 } else { 1 };
    let mut signer;
    match t.pick(4) {
        0 => {
            signer = RefSigner::new(&rs(root()), &rs(k(1, alg(t))), &payload, if version == 0 && true { 0 } else { 1 }, if t.chance(1, 5) { Some(t.raw() as u64) } else { None });
        }
        1 => {
            signer = RefSigner::new(&rs(root()), &rs(k(1, Alg::Ed)), &plain, version, None);
            signer.append(&rs(k(2, alg(t))), &payload, 1, None);
        }
        2 => {
            signer = RefSigner::new(&rs(root()), &rs(k(1, Alg::Ed)), &plain, 1, None);
            let ext = rs(k(3, alg(t)));
            signer.append(&rs(k(2, Alg::Ed)), &payload, 1, Some(&ext));
        }
        _ => {
            signer = RefSigner::new(&rs(root()), &rs(k(1, Alg::Ed)), &payload, 1, None);
            signer.append(&rs(k(2, Alg::Ed)), &payload, 1, None);
            let ext = rs(k(3, Alg::Ed));
            signer.append(&rs(k(4, Alg::Ed)), &plain, 1, Some(&ext));
        }
    }
    if t.chance(1, 6) {
        signer.seal();
    }
    let mut w = signer.token;
    // proof manipulations that still pass the signature gate of the blocks
    if t.chance(1, 10) {
        if let vcore::wire::WProof::Secret(s) = &mut w.proof {
            match t.pick(3) {
                0 => s.push(0),
                1 => {
                    s.pop();
                }
                _ => s.clear(),
            }
        }
    }
    w.encode()
}

fn valid_token(t: &mut Tape) -> (TokenPlan, Vec<u8>) {
    let cfg = GenCfg {
        typed: t.chance(1, 2),
        max_facts: 3,
        max_rules: 2,
        max_checks: 2,
        ..GenCfg::default()
    };
    let mut plan = gen_token_plan(t, &cfg, 2);
    plan.root = root();
    let bytes = build_token(&plan).ok().and_then(|t| t.to_vec().ok()).unwrap_or_default();
    (plan, bytes)
}

fn mutate_bytes(t: &mut Tape, mut b: Vec<u8>) -> Vec<u8> {
    let n = t.range(1, 4);
    for _ in 0..n {
        if b.is_empty() {
            b.push(t.raw() as u8);
            continue;
        }
        match t.pick(5) {
            0 => {
                let i = t.pick(b.len());
                b[i] ^= 1 << t.pick(8);
            }
            1 => {
                let i = t.pick(b.len() + 1);
                b.insert(i, t.raw() as u8);
            }
            2 => {
                let i = t.pick(b.len());
                b.remove(i);
            }
            3 => {
                let i = t.pick(b.len());
                b.truncate(i);
            }
            _ => {
                let i = t.pick(b.len());
                b[i] = *t.choose(&[0u8, 0xff, 0x7f, 0x80, 1]);
            }
        }
    }
    b
}

/// whole items with parameters that nothing binds: text entry points must refuse them or carry
/// them without panicking at print / build time
const UNBOUND_ITEMS: &[&str] = &[
    "check if true trusting {pk}",
    "check if resource($r) trusting {pk}, authority",
    "r($x) <- f($x) trusting {pk}",
    "r({p}) <- f($x), $x == {q} trusting {pk}",
    "allow if true trusting {pk}",
    "deny if f({p}) trusting previous, {pk}",
    "f({p})",
    "f([{p}, 1], {\"k\": {q}}, {{k}: 1})",
    "check if [1].any($x -> $x == {p})",
    "check if true || {p}",
    "check all f($x), $x.contains({p}) trusting {pk}",
    "reject if f({p}) or g({q}) trusting {pk}",
];

const DATALOG_FRAGMENTS: &[&str] = &[
    "right(\"file1\", \"read\")", "check if ", "check all ", "reject if ", "allow if ", "deny if ", "true", "false", "$x", "$0", "resource($x)", " <- ", ", ", ";", "\n", " or ",
    " trusting ", "authority", "previous", "ed25519/", "secp256r1/", "ed25519/00", "ed25519/zz", "hex:", "hex:0", "hex:00ff", "{", "}", "{,}", "{}", "[", "]", "[1, 2]", "{\"a\": 1}", "{p}", "{1}: 2",
    "null", "1", "-9223372036854775808", "9223372036854775808", "99999999999999999999", "\"", "\\", "\"a\\\"b\"", "2020-01-01T00:00:00Z", "9999-12-31T23:59:59Z", "0000-00-00T00:00:00Z", "2020-01-01T00:00:00+25:00",
    ".length()", ".contains(", ")", "(", ".all($p -> ", ".any($x -> ", ".get(", ".type()", ".extern::f(", ".extern::()", " && ", " || ", " &&! ", "!", " === ", " !== ", " == ", " != ", " + ", " - ", " * ", " / ", " < ", " >= ",
    " & ", " | ", " ^ ", "//c\n", "/* c */", "/*", "\u{0}", "\u{feff}", "é", "\u{1F600}", "a:b", "_x", "9a", "query", "trusting", ".starts_with(", ".matches(\"(\")", ".intersection(", ".union(",
];

fn gen_datalog(t: &mut Tape) -> String {
    if t.chance(1, 3) {
        // printed valid items, then mutated
        let cfg = GenCfg {
            typed: false,
            grammar_normal: t.chance(1, 2),
            wild_strings: true,
            ..GenCfg::default()
        };
        let keys = vcore::keys::publics(&gen_keys(t, 3));
        let blk = gen_block(t, &cfg);
        let s = guard(|| blk.to_builder(&keys).map(|b| b.to_string()).unwrap_or_default()).unwrap_or_default();
        if t.chance(1, 2) {
            return s;
        }
        let b = mutate_bytes(t, s.into_bytes());
        return String::from_utf8_lossy(&b).to_string();
    }
    if t.chance(1, 5) {
        // well-formed items with unbound parameters, alone or among other items
        let n = t.range(1, 3);
        let mut items: Vec<String> = (0..n).map(|_| t.choose(UNBOUND_ITEMS).to_string()).collect();
        if t.chance(1, 2) {
            items.push("user(1)".into());
        }
        return if n == 1 && t.chance(1, 2) { items[0].clone() } else { items.join(";\n") + ";" };
    }
    let n = t.range(0, 12);
    let mut s = String::new();
    for _ in 0..n {
        s.push_str(*t.choose(DATALOG_FRAGMENTS));
    }
    s
}

pub fn gen_input(t: &mut Tape) -> (Input, &'static str) {
    match t.weighted(&[8, 4, 3, 4, 2, 2, 2, 2, 3, 3, 2, 2, 5]) {
        0 => {
            // adversarial block, properly signed
            let wild = *t.choose(&[1u32, 2, 4, 8]);
            let blk = Adv { t, wild }.block();
            (Input::Token(sign_block(t, blk.encode_to_vec())), "signed_adversarial_block")
        }
        1 => {
            // a valid block with few targeted edits, properly signed
            let (_, bytes) = valid_token(t);
            let payload = vcore::wire::WToken::decode(&bytes).map(|w| w.authority.block).unwrap_or_default();
            let mut blk = schema::Block::decode(&payload[..]).unwrap_or_default();
            let wild = 12;
            let mut adv = Adv { t, wild };
            for _ in 0..adv.t.range(1, 3) {
                match adv.t.pick(9) {
                    0 => blk.version = Some(adv.t.pick(9) as u32),
                    1 => blk.symbols.push(adv.t.choose(&["read", "dup", "dup"]).to_string()),
                    2 => {
                        if let Some(f) = blk.facts_v2.first_mut() {
                            f.predicate.name = adv.sym();
                        }
                    }
                    3 => {
                        if let Some(f) = blk.facts_v2.first_mut() {
                            f.predicate.terms.push(adv.term(2, true));
                        } else {
                            blk.facts_v2.push(schema::FactV2 { predicate: adv.pred(true) });
                        }
                    }
                    4 => {
                        if let Some(r) = blk.rules_v2.first_mut() {
                            r.expressions.push(adv.expr());
                        } else {
                            blk.rules_v2.push(adv.rule());
                        }
                    }
                    5 => blk.checks_v2.push(adv.check()),
                    6 => blk.scope.push(adv.scope()),
                    7 => blk.public_keys.push(adv.key()),
                    _ => {
                        if let Some(c) = blk.checks_v2.first_mut() {
                            c.kind = Some(adv.t.pick(5) as i32);
                            if let Some(q) = c.queries.first_mut() {
                                q.scope.push(adv.scope());
                                q.head = adv.pred(true);
                            }
                        }
                    }
                }
            }
            (Input::Token(sign_block(t, blk.encode_to_vec())), "signed_edited_valid_block")
        }
        2 => {
            let (_, bytes) = valid_token(t);
            if t.chance(1, 4) {
                (Input::Token(bytes), "valid_token")
            } else {
                (Input::Token(mutate_bytes(t, bytes)), "mutated_token_bytes")
            }
        }
        3 => {
            let (_, bytes) = valid_token(t);
            let mut s = base64::encode_config(&bytes, base64::URL_SAFE);
            if t.chance(2, 3) {
                s = String::from_utf8_lossy(&mutate_bytes(t, s.into_bytes())).to_string();
            }
            (Input::TokenBase64(s), "token_base64")
        }
        4 => {
            let n = t.range(0, 200);
            (Input::Token((0..n).map(|_| t.raw() as u8).collect()), "random_bytes_as_token")
        }
        5 => {
            let wild = *t.choose(&[0u32, 1, 3, 8]);
            let s = Adv { t, wild }.snapshot();
            (Input::Snapshot(s.encode_to_vec()), "adversarial_snapshot")
        }
        6 => {
            // a real snapshot with edited counters / origins
            let (plan, bytes) = valid_token(t);
            let tok = Biscuit::from(&bytes, root().public()).ok();
            let keys = plan.publics();
            let cfg = GenCfg::default();
            let ast = gen_authorizer(t, &cfg);
            let snap = tok.and_then(|tok| {
                let mut a = vcore::authz::build_authorizer(Some(&tok), &ast, &keys, small_limits()).ok()?;
                if t.chance(1, 2) {
                    let _ = guard(|| a.authorize());
                }
                guard(|| a.snapshot().ok()).ok().flatten()
            });
            match snap {
                Some(mut s) => {
                    let wild = 10;
                    let mut adv = Adv { t, wild };
                    for _ in 0..adv.t.range(1, 3) {
                        match adv.t.pick(8) {
                            0 => s.world.iterations = *adv.t.choose(&[u64::MAX, 21, 1000, 1 << 40]),
                            1 => s.execution_time = *adv.t.choose(&[u64::MAX, 1, 200_000_001, 1 << 62]),
                            2 => s.limits.max_iterations = *adv.t.choose(&[0u64, 1, u64::MAX]),
                            3 => s.limits.max_time = *adv.t.choose(&[0u64, 1, u64::MAX]),
                            4 => {
                                if let Some(g) = s.world.generated_facts.first_mut() {
                                    g.origins.push(adv.origin());
                                }
                            }
                            5 => s.world.symbols.push(adv.t.choose(&["read", "dup", "dup"]).to_string()),
                            6 => {
                                if let Some(b) = s.world.blocks.first_mut() {
                                    b.external_key = Some(adv.key());
                                } else {
                                    s.world.blocks.push(adv.snapshot_block());
                                }
                            }
                            _ => s.world.version = Some(adv.t.pick(9) as u32),
                        }
                    }
                    let bytes = s.encode_to_vec();
                    if t.chance(1, 4) {
                        (Input::SnapshotBase64(base64::encode_config(&bytes, base64::URL_SAFE)), "edited_real_snapshot")
                    } else {
                        (Input::Snapshot(bytes), "edited_real_snapshot")
                    }
                }
                None => (Input::Snapshot(vec![]), "edited_real_snapshot"),
            }
        }
        7 => {
            let wild = *t.choose(&[0u32, 2, 8]);
            let p = Adv { t, wild }.policies();
            let bytes = p.encode_to_vec();
            (Input::Policies(if t.chance(1, 4) { mutate_bytes(t, bytes) } else { bytes }), "policies")
        }
        8 => {
            // third-party messages
            let (_, bytes) = valid_token(t);
            if t.chance(1, 2) {
                let r = schema::ThirdPartyBlockRequest {
                    legacy_previous_key: if t.chance(1, 4) { Some(Adv { t, wild: 8 }.key()) } else { None },
                    legacy_public_keys: if t.chance(1, 4) { vec![Adv { t, wild: 8 }.key()] } else { vec![] },
                    previous_signature: t.bytes(70),
                };
                let b = r.encode_to_vec();
                (Input::ThirdPartyRequest(if t.chance(1, 3) { mutate_bytes(t, b) } else { b }), "third_party_request")
            } else {
                let wild = *t.choose(&[1u32, 4, 10]);
                let blk = Adv { t, wild }.block();
                let payload = blk.encode_to_vec();
                let ext = k(3, if t.chance(1, 3) { Alg::P256 } else { Alg::Ed });
                let prev = vcore::wire::WToken::decode(&bytes).map(|w| w.blocks.last().unwrap_or(&w.authority).signature.clone()).unwrap_or_default();
                let sig = RSecret::from_keypair(&ext.keypair()).sign(&vcore::refcrypto::payload_external_v1(&payload, &prev, 1));
                let c = schema::ThirdPartyBlockContents {
                    payload,
                    external_signature: schema::ExternalSignature {
                        signature: sig,
                        public_key: if t.chance(1, 5) { Adv { t, wild: 12 }.key() } else { ext.public().to_proto() },
                    },
                };
                let b = c.encode_to_vec();
                (Input::ThirdPartyBlock(bytes, if t.chance(1, 5) { mutate_bytes(t, b) } else { b }), "third_party_block")
            }
        }
        9 => {
            let kp = k(100 + t.pick(4) as u64, if t.chance(1, 2) { Alg::P256 } else { Alg::Ed }).keypair();
            let base = match t.pick(5) {
                0 => kp.public().to_string(),
                1 => kp.private().to_prefixed_string(),
                2 => kp.public().to_bytes_hex(),
                3 => format!("{}/{}", t.choose(&["ed25519", "secp256r1", "", "x", "ED25519"]), hex::encode(t.bytes(40))),
                _ => String::new(),
            };
            let s = if t.chance(1, 2) { String::from_utf8_lossy(&mutate_bytes(t, base.into_bytes())).to_string() } else { base };
            (Input::KeyString(s), "key_string")
        }
        10 => {
            let kp = k(100 + t.pick(4) as u64, if t.chance(1, 2) { Alg::P256 } else { Alg::Ed }).keypair();
            let base = match t.pick(5) {
                0 => kp.public().to_bytes(),
                1 => kp.private().to_bytes().to_vec(),
                2 => kp.sign(b"m").map(|s| s.to_bytes().to_vec()).unwrap_or_default(),
                3 => t.bytes(80),
                _ => vec![],
            };
            (Input::KeyBytes(if t.chance(1, 2) { mutate_bytes(t, base) } else { base }), "key_bytes")
        }
        11 => {
            let kp = k(100 + t.pick(4) as u64, if t.chance(1, 2) { Alg::P256 } else { Alg::Ed }).keypair();
            if t.chance(1, 2) {
                let base = match t.pick(3) {
                    0 => kp.public().to_pem().unwrap_or_default(),
                    1 => kp.private().to_pem().map(|z| z.to_string()).unwrap_or_default(),
                    _ => kp.to_private_key_pem().map(|z| z.to_string()).unwrap_or_default(),
                };
                let s = if t.chance(2, 3) { String::from_utf8_lossy(&mutate_bytes(t, base.into_bytes())).to_string() } else { base };
                (Input::Pem(s), "pem")
            } else {
                let base = match t.pick(3) {
                    0 => kp.public().to_der().unwrap_or_default(),
                    1 => kp.private().to_der().map(|z| z.to_vec()).unwrap_or_default(),
                    _ => kp.to_private_key_der().map(|z| z.to_vec()).unwrap_or_default(),
                };
                (Input::Der(if t.chance(2, 3) { mutate_bytes(t, base) } else { base }), "der")
            }
        }
        _ => (Input::Datalog(gen_datalog(t)), "datalog"),
    }
}

// ---------------------------------------------------------------------------------------------
// well-formed expressions over extreme operands, delivered by a signed block
// ---------------------------------------------------------------------------------------------

const GRID_SYMBOLS: &[&str] = &["operands", "x", "y", "", "a", "abc", "(", "a{1000}{1000}{1000}", "[[[[[[[[[[[[[[[[[[[[[[[[[[[[[[[[", "\u{0}\u{feff}é"];
const INT_POOL: &[i64] = &[i64::MIN, i64::MIN + 1, -64, -2, -1, 0, 1, 2, 63, 64, i64::MAX - 1, i64::MAX];

fn other_pool() -> Vec<schema::TermV2> {
    use schema::term_v2::Content as C;
    let t = |c| schema::TermV2 { content: Some(c) };
    let int = |i| t(C::Integer(i));
    let s = |i: u64| t(C::String(1024 + i));
    let mut v = vec![];
    for i in 3..GRID_SYMBOLS.len() as u64 {
        v.push(s(i));
    }
    v.push(t(C::String(GRID_SYMBOLS.len() as u64 + 1024))); // the long string, see grid_block
    v.extend([t(C::Date(0)), t(C::Date(1)), t(C::Date(u64::MAX)), t(C::Date(i64::MAX as u64))]);
    v.extend([t(C::Bytes(vec![])), t(C::Bytes(vec![0])), t(C::Bytes(vec![0xff; 40]))]);
    v.extend([t(C::Bool(true)), t(C::Bool(false)), t(C::Null(schema::Empty {}))]);
    v.push(t(C::Set(schema::TermSet { set: vec![] })));
    v.push(t(C::Set(schema::TermSet { set: vec![int(i64::MIN), int(-1), int(i64::MAX)] })));
    v.push(t(C::Set(schema::TermSet { set: vec![s(4), s(3)] })));
    v.push(t(C::Array(schema::Array { array: vec![] })));
    v.push(t(C::Array(schema::Array { array: vec![int(i64::MIN), int(-1), s(4)] })));
    let mut deep = t(C::Array(schema::Array { array: vec![int(1)] }));
    for _ in 0..40 {
        deep = t(C::Array(schema::Array { array: vec![deep] }));
    }
    v.push(deep);
    v.push(t(C::Map(schema::Map { entries: vec![] })));
    v.push(t(C::Map(schema::Map {
        entries: vec![
            schema::MapEntry {
                key: schema::MapKey { content: Some(schema::map_key::Content::Integer(i64::MIN)) },
                value: int(-1),
            },
            schema::MapEntry {
                key: schema::MapKey { content: Some(schema::map_key::Content::String(1024 + 4)) },
                value: t(C::Null(schema::Empty {})),
            },
        ],
    })));
    v
}

fn term_pool() -> Vec<schema::TermV2> {
    let mut v: Vec<schema::TermV2> = INT_POOL.iter().map(|i| schema::TermV2 { content: Some(schema::term_v2::Content::Integer(*i)) }).collect();
    v.extend(other_pool());
    v
}

/// `check if <ops>` and the same through variables bound by a fact, in a version 6 authority block
fn grid_block(operands: &[schema::TermV2], tail: Vec<schema::Op>) -> Vec<u8> {
    use schema::op::Content as OC;
    use schema::term_v2::Content as C;
    let mut symbols: Vec<String> = GRID_SYMBOLS.iter().map(|s| s.to_string()).collect();
    symbols.push("long".repeat(5000));
    symbols.push("z".into());
    let var_ids = [1025u32, 1026, 1024 + symbols.len() as u32 - 1];
    let value = |t: schema::TermV2| schema::Op { content: Some(OC::Value(t)) };
    let empty_head = schema::PredicateV2 { name: 1024, terms: vec![] };
    let mut direct: Vec<schema::Op> = operands.iter().cloned().map(value).collect();
    direct.extend(tail.clone());
    let mut via_vars: Vec<schema::Op> = (0..operands.len()).map(|i| value(schema::TermV2 { content: Some(C::Variable(var_ids[i])) })).collect();
    via_vars.extend(tail);
    let fact = schema::PredicateV2 {
        name: 1024,
        terms: operands.to_vec(),
    };
    let check = |body: Vec<schema::PredicateV2>, ops: Vec<schema::Op>| schema::CheckV2 {
        queries: vec![schema::RuleV2 {
            head: empty_head.clone(),
            body,
            expressions: vec![schema::ExpressionV2 { ops }],
            scope: vec![],
        }],
        kind: None,
    };
    schema::Block {
        symbols,
        context: None,
        version: Some(6),
        facts_v2: vec![schema::FactV2 { predicate: fact }],
        rules_v2: vec![],
        checks_v2: vec![
            check(vec![], direct),
            check(
                vec![schema::PredicateV2 {
                    name: 1024,
                    terms: (0..operands.len()).map(|i| schema::TermV2 { content: Some(C::Variable(var_ids[i])) }).collect(),
                }],
                via_vars,
            ),
        ],
        scope: vec![],
        public_keys: vec![],
    }
    .encode_to_vec()
}

fn signed_authority(payload: &[u8]) -> Vec<u8> {
    let rs = |kp: KeyPlan| RSecret::from_keypair(&kp.keypair());
    RefSigner::new(&rs(root()), &rs(k(1, Alg::Ed)), payload, 1, None).bytes()
}

fn bin_op(kind: i32) -> schema::Op {
    schema::Op {
        content: Some(schema::op::Content::Binary(schema::OpBinary { kind, ffi_name: None })),
    }
}
fn un_op(kind: i32) -> schema::Op {
    schema::Op {
        content: Some(schema::op::Content::Unary(schema::OpUnary { kind, ffi_name: None })),
    }
}

/// deterministic part: every binary operator over every pair of extreme integers, every unary
/// operator over the whole pool
fn grid_inputs_fixed() -> Vec<(Input, &'static str)> {
    let mut v = vec![];
    let int = |i: i64| schema::TermV2 { content: Some(schema::term_v2::Content::Integer(i)) };
    for kind in 0..28 {
        for a in INT_POOL {
            for b in INT_POOL {
                v.push((Input::Token(signed_authority(&grid_block(&[int(*a), int(*b)], vec![bin_op(kind)]))), "grid_int_binary"));
            }
        }
    }
    for kind in 0..4 {
        for a in term_pool() {
            v.push((Input::Token(signed_authority(&grid_block(&[a], vec![un_op(kind)]))), "grid_unary"));
        }
    }
    v
}

/// sampled part: binary operators over the mixed pool, and two-operator expressions
fn grid_input_sampled(t: &mut Tape) -> (Input, &'static str) {
    let pool = term_pool();
    let a = t.choose(&pool).clone();
    let b = t.choose(&pool).clone();
    if t.chance(2, 3) {
        let kind = t.pick(28) as i32;
        (Input::Token(signed_authority(&grid_block(&[a, b], vec![bin_op(kind)]))), "grid_mixed_binary")
    } else {
        // (a op1 b) op2 c, optionally with a unary in between
        let c = t.choose(&pool).clone();
        let mut ops = vec![bin_op(t.pick(28) as i32)];
        if t.chance(1, 3) {
            ops.push(un_op(t.pick(4) as i32));
        }
        let third = schema::Op { content: Some(schema::op::Content::Value(c)) };
        ops.push(third);
        ops.push(bin_op(t.pick(28) as i32));
        (Input::Token(signed_authority(&grid_block(&[a, b], ops))), "grid_nested")
    }
}

// ---------------------------------------------------------------------------------------------
// parent driver
// ---------------------------------------------------------------------------------------------

struct Child {
    child: std::process::Child,
    stdin: std::process::ChildStdin,
    rx: mpsc::Receiver<String>,
}

fn spawn_child() -> Child {
    let exe = std::env::current_exe().expect("current exe");
    let mut child = Command::new(exe)
        .arg("--c09-worker")
        .stdin(Stdio::piped())
        .stdout(Stdio::piped())
        .stderr(Stdio::null())
        .spawn()
        .expect("spawn worker");
    let stdin = child.stdin.take().unwrap();
    let stdout = child.stdout.take().unwrap();
    let (tx, rx) = mpsc::channel();
    std::thread::spawn(move || {
        for line in BufReader::new(stdout).lines() {
            match line {
                Ok(l) => {
                    if tx.send(l).is_err() {
                        break;
                    }
                }
                Err(_) => break,
            }
        }
    });
    Child { child, stdin, rx }
}

#[derive(Debug)]
enum Ack {
    Ok(serde_json::Value),
    Died(String),
    Timeout,
}

/// first attempt, among the other inputs of the worker
const WATCHDOG: Duration = Duration::from_secs(30);
/// second attempt, alone in a fresh worker: only an input that stays unanswered this long is a hang
const LONG_WATCHDOG: Duration = Duration::from_secs(600);

fn submit(c: &mut Child, id: u64, input: &Input, watchdog: Duration) -> Ack {
    let line = json!({"id": id, "input": input}).to_string();
    if writeln!(c.stdin, "{}", line).is_err() || c.stdin.flush().is_err() {
        let st = c.child.wait().map(|s| format!("{s}")).unwrap_or_default();
        return Ack::Died(st);
    }
    loop {
        match c.rx.recv_timeout(watchdog) {
            Ok(l) => {
                if let Ok(v) = serde_json::from_str::<serde_json::Value>(&l) {
                    if v["id"].as_u64() == Some(id) {
                        return Ack::Ok(v);
                    }
                }
                // library noise on stdout: ignore
            }
            Err(mpsc::RecvTimeoutError::Timeout) => {
                let _ = c.child.kill();
                let _ = c.child.wait();
                return Ack::Timeout;
            }
            Err(mpsc::RecvTimeoutError::Disconnected) => {
                let st = c.child.wait().map(|s| format!("{s}")).unwrap_or_default();
                return Ack::Died(st);
            }
        }
    }
}

pub fn run_inputs(ctx: &Ctx, inputs: Vec<(Input, &'static str)>) {
    let n = inputs.len();
    let workers = 16usize;
    let chunk = (n + workers - 1) / workers.max(1);
    let inconclusive = std::sync::atomic::AtomicBool::new(false);
    std::thread::scope(|sc| {
        for (w, part) in inputs.chunks(chunk.max(1)).enumerate() {
            let inconclusive = &inconclusive;
            sc.spawn(move || {
                let mut child = spawn_child();
                let mut reported: std::collections::HashSet<String> = Default::default();
                for (i, (input, class)) in part.iter().enumerate() {
                    let id = (w * chunk + i) as u64;
                    let mut rep = vcore::runner::Report::default();
                    rep.class(format!("gen:{class}"));
                    let mut ack = submit(&mut child, id, input, WATCHDOG);
                    if matches!(ack, Ack::Timeout) {
                        // a loaded machine is not a hang: the input is given a second, long
                        // attempt alone in a fresh worker, and its answer is treated like any other
                        rep.class("slow_input_second_attempt");
                        child = spawn_child();
                        let mut c2 = spawn_child();
                        ack = submit(&mut c2, id, input, LONG_WATCHDOG);
                        let _ = c2.child.kill();
                        let _ = c2.child.wait();
                    }
                    let mut violations: Vec<Violation> = vec![];
                    match ack {
                        Ack::Ok(v) => {
                            let reached: Vec<String> = v["reached"].as_array().map(|a| a.iter().filter_map(|x| x.as_str().map(|s| s.to_string())).collect()).unwrap_or_default();
                            if !reached.is_empty() {
                                rep.nontrivial(hash64(input));
                                for r in reached.iter().collect::<std::collections::BTreeSet<_>>() {
                                    rep.class(format!("reached:{r}"));
                                }
                            }
                            if i < 2 && w == 0 {
                                rep.sample(json!({"class": class, "input": serde_json::to_string(input).unwrap_or_default().chars().take(300).collect::<String>()}));
                            }
                            if let Some(ps) = v["panics"].as_array() {
                                for p in ps {
                                    let entry = p[0].as_str().unwrap_or("");
                                    let site = p[1].as_str().unwrap_or("");
                                    let msg = p[2].as_str().unwrap_or("");
                                    let entry_class = entry.split('(').next().unwrap_or(entry);
                                    violations.push(Violation::new(
                                        format!("panic:{site}:{entry_class}"),
                                        format!("{entry} panicked: {msg} (input class {class}, kind {})", kind_of(input)),
                                    ));
                                }
                            }
                        }
                        Ack::Died(st) => {
                            violations.push(Violation::new(
                                format!("abort:{}", kind_of(input)),
                                format!("the worker process died ({st}) while handling this input (class {class})"),
                            ));
                            child = spawn_child();
                        }
                        Ack::Timeout => {
                            violations.push(Violation::new(
                                format!("hang:{}", kind_of(input)),
                                format!("no answer within {:?} and, alone in a fresh worker, within {:?} (class {class})", WATCHDOG, LONG_WATCHDOG),
                            ));
                        }
                    }
                    ctx.merge(rep);
                    for vio in violations {
                        if !ctx.tolerate(&vio) && reported.insert(vio.signature.clone()) {
                            ctx.violation("inputs", &vio, &serde_json::to_value(input).unwrap_or_default());
                        }
                    }
                }
                drop(child.stdin);
                let _ = child.child.wait();
            });
        }
    });
    let _ = inconclusive;
}

pub fn run(ctx: &Ctx, replay: Option<&serde_json::Value>) {
    if let Some(r) = replay {
        let input: Input = serde_json::from_value(r["case"].clone()).expect("bad replay case");
        run_inputs(ctx, vec![(input, "replay")]);
        return;
    }
    ctx.set_rule("13 generators: adversarial schema::Block (out-of-range symbol / variable / key ids, malformed op sequences, empty oneofs, unknown enum numbers, versions 0..8, duplicate and default symbols, invalid keys, huge dates, deep nesting) and edited valid blocks, both PROPERLY SIGNED by RefSigner as authority / first-party / third-party block; valid, mutated and random token bytes and base64; adversarial and edited real authorizer snapshots (counters beyond limits, bogus origins); policies; third-party requests and blocks; key strings, bytes, PEM, DER; Datalog text from fragments and mutated printed programs; an operand grid of well-formed expressions in signed version-6 blocks (every binary operator over every pair of 12 extreme integers, every unary operator over a 35-term pool of extreme values of every type, sampled mixed-type and two-operator expressions), each evaluated both on constants and through variables bound by a fact. Every input goes to every applicable entry point in a child process, followed by the accessor sweep (all indices incl. count..count+2 and usize::MAX, print, seal, append, third-party, authorizer build / run / authorize / query / dump / snapshot / restore). oracle: no panic (caught, attributed to entry point and file), no abort, no watchdog expiry; non-trivial = the input passed the gate and produced an object (token, authorizer, key, parsed item); distinct = hash(input)");
    ctx.assume("an input unanswered after 30 s gets a second attempt alone in a fresh worker with a 600 s watchdog; only a second expiry is a hang");
    let total = match ctx.tier {
        Tier::Quick => 24_000usize,
        Tier::Thorough => 400_000,
    };
    // deterministic generation: 16 tapes derived from the seed
    let mut inputs = vec![];
    for w in 0..16u64 {
        let seed = derive_seed(ctx.seed, "C09/inputs", w);
        use rand::{RngCore, SeedableRng};
        let mut rng = rand_chacha::ChaCha8Rng::from_seed(seed);
        for _ in 0..total / 16 {
            let len = (rng.next_u32() % 900) as usize;
            let data: Vec<u16> = (0..len).map(|_| rng.next_u32() as u16).collect();
            let mut t = Tape::new(data);
            inputs.push(if rng.next_u32() % 6 == 0 { grid_input_sampled(&mut t) } else { gen_input(&mut t) });
        }
    }
    // interleave the fixed grid so that every worker gets a share of it
    let fixed = grid_inputs_fixed();
    let stride = (inputs.len() / fixed.len().max(1)).max(1);
    let mut all = Vec::with_capacity(inputs.len() + fixed.len());
    let mut fixed = fixed.into_iter();
    for (i, inp) in inputs.into_iter().enumerate() {
        if i % stride == 0 {
            if let Some(f) = fixed.next() {
                all.push(f);
            }
        }
        all.push(inp);
    }
    all.extend(fixed);
    run_inputs(ctx, all);
}
