//! C12 - a token means the same in memory and after a round trip, on every API path
use biscuit_auth::builder as b;
use biscuit_auth::format::schema;
use biscuit_auth::{Biscuit, PublicKey, UnverifiedBiscuit};
use prost::Message;
use serde::{Deserialize, Serialize};
use serde_json::json;
use vcore::ast::*;
use vcore::authz::*;
use vcore::gen::*;
use vcore::keys::{publics, KeyPlan};
use vcore::refcrypto::{RSecret, RefSigner};
use vcore::refdl::{RToken, RefAuthz, RefOutcome};
use vcore::refeval::no_externs;
use vcore::runner::{Ctx, Report, Violation};
use vcore::tape::{from_tape, Tape};
use vcore::tokens::gen_key;
use vcore::util::{guard, hash64};

#[derive(Clone, Debug, Serialize, Deserialize, Hash)]
pub enum Step {
    AppendFirst(Block, KeyPlan),
    AppendThird(Block, usize, KeyPlan),
    Seal,
    Reload,
    SwitchApi,
}

#[derive(Clone, Debug, Serialize, Deserialize, Hash)]
pub struct Case {
    pub keys: Vec<KeyPlan>,
    pub root: KeyPlan,
    pub first_next: KeyPlan,
    pub authority: Block,
    pub start_unverified: bool,
    pub steps: Vec<Step>,
    pub authorizers: Vec<AuthorizerAst>,
}

#[derive(Clone)]
enum Tok {
    V(Biscuit),
    U(UnverifiedBiscuit),
}

fn v(sig: String, detail: String) -> Violation {
    Violation::new(sig, detail)
}

pub fn cfg() -> GenCfg {
    GenCfg {
        typed: true,
        grammar_normal: true,
        strict_bool_ops: false,
        wild_strings: false,
        n_keys: 3,
        max_facts: 3,
        max_rules: 2,
        max_checks: 2,
        ..GenCfg::default()
    }
}

pub fn gen_case(t: &mut Tape, cfg: &GenCfg) -> Case {
    let mut cfg = cfg.clone();
    cfg.sigs = gen_sig_subset(t);
    let mut keys = gen_keys(t, cfg.n_keys);
    for (i, k) in keys.iter_mut().enumerate() {
        k.seed = (k.seed << 8) | (32 + i as u64);
    }
    let root = gen_key(t, 0);
    let first_next = gen_key(t, 1);
    let authority = gen_block(t, &cfg);
    let n = t.range(1, 7);
    let mut steps = vec![];
    let mut sealed = false;
    for i in 0..n {
        if sealed {
            break;
        }
        let s = match t.weighted(&[4, 4, 3, 3, if i + 1 == n { 1 } else { 0 }]) {
            0 => Step::AppendFirst(gen_block(t, &cfg), gen_key(t, 2 + i as u8)),
            1 => Step::AppendThird(gen_block(t, &cfg), t.pick(cfg.n_keys), gen_key(t, 2 + i as u8)),
            2 => Step::Reload,
            3 => Step::SwitchApi,
            _ => {
                sealed = true;
                Step::Seal
            }
        };
        steps.push(s);
    }
    let na = t.range(1, 3);
    let mut authorizers: Vec<AuthorizerAst> = (0..na).map(|_| gen_authorizer(t, &cfg)).collect();
    // one authorizer that trusts every pool key explicitly
    authorizers.push(AuthorizerAst {
        block: Block::default(),
        policies: (0..cfg.n_keys)
            .map(|k| Policy {
                allow: true,
                queries: vec![{
                    let (body, _, _) = gen_rule_body(t, &GenCfg { exprs: false, ..cfg.clone() }, 1);
                    Rule::query(body, vec![], vec![Scope::Key(k)])
                }],
            })
            .collect(),
    });
    Case {
        keys,
        root,
        first_next,
        authority,
        start_unverified: t.chance(1, 3),
        steps,
        authorizers,
    }
}

fn bytes_of(t: &Tok) -> Result<Vec<u8>, String> {
    match t {
        Tok::V(x) => x.to_vec().map_err(|e| format!("{e:?}")),
        Tok::U(x) => x.to_vec().map_err(|e| format!("{e:?}")),
    }
}

fn sources(t: &Tok) -> Vec<Result<String, String>> {
    let n = match t {
        Tok::V(x) => x.block_count(),
        Tok::U(x) => x.block_count(),
    };
    (0..n)
        .map(|i| {
            let r = guard(|| match t {
                Tok::V(x) => x.print_block_source(i).map_err(|e| format!("{e:?}")),
                Tok::U(x) => x.print_block_source(i).map_err(|e| format!("{e:?}")),
            });
            match r {
                Ok(r) => r,
                Err(p) => Err(format!("PANIC {} at {}:{}", p.message, p.site(), p.line)),
            }
        })
        .collect()
}

fn to_verified(t: &Tok, root: PublicKey) -> Result<Biscuit, String> {
    match t {
        Tok::V(x) => Ok(x.clone()),
        Tok::U(x) => x.clone().verify(root).map_err(|e| format!("{e:?}")),
    }
}

fn apply(case: &Case, tok: &Tok, step: &Step, pubs: &[PublicKey]) -> Result<Tok, String> {
    let pubs = pubs.to_vec();
    let root = case.root.public();
    let r = guard(|| -> Result<Tok, String> {
        Ok(match (step, tok) {
            (Step::AppendFirst(blk, next), Tok::V(x)) => {
                Tok::V(x.append_with_keypair(&next.keypair(), blk.to_builder(&pubs).map_err(|e| format!("{e:?}"))?).map_err(|e| format!("{e:?}"))?)
            }
            (Step::AppendFirst(blk, next), Tok::U(x)) => {
                Tok::U(x.append_with_keypair(&next.keypair(), blk.to_builder(&pubs).map_err(|e| format!("{e:?}"))?).map_err(|e| format!("{e:?}"))?)
            }
            (Step::AppendThird(blk, ext, next), Tok::V(x)) => {
                let kp = case.keys[*ext % case.keys.len()].keypair();
                let req = x.third_party_request().map_err(|e| format!("{e:?}"))?;
                let tp = req
                    .create_block(&kp.private(), blk.to_builder(&pubs).map_err(|e| format!("{e:?}"))?)
                    .map_err(|e| format!("{e:?}"))?;
                Tok::V(x.append_third_party_with_keypair(kp.public(), tp, next.keypair()).map_err(|e| format!("{e:?}"))?)
            }
            (Step::AppendThird(blk, ext, next), Tok::U(x)) => {
                let kp = case.keys[*ext % case.keys.len()].keypair();
                let req = x.third_party_request().map_err(|e| format!("{e:?}"))?;
                // the request travels serialised
                let req = biscuit_auth::ThirdPartyRequest::deserialize(&req.serialize().map_err(|e| format!("{e:?}"))?).map_err(|e| format!("{e:?}"))?;
                let tp = req
                    .create_block(&kp.private(), blk.to_builder(&pubs).map_err(|e| format!("{e:?}"))?)
                    .map_err(|e| format!("{e:?}"))?;
                let bytes = tp.serialize().map_err(|e| format!("{e:?}"))?;
                Tok::U(x.append_third_party_with_keypair(&bytes, next.keypair()).map_err(|e| format!("{e:?}"))?)
            }
            (Step::Seal, Tok::V(x)) => Tok::V(x.seal().map_err(|e| format!("{e:?}"))?),
            (Step::Seal, Tok::U(x)) => Tok::U(x.seal().map_err(|e| format!("{e:?}"))?),
            (Step::Reload, Tok::V(x)) => Tok::V(Biscuit::from(x.to_vec().map_err(|e| format!("{e:?}"))?, root).map_err(|e| format!("reload: {e:?}"))?),
            (Step::Reload, Tok::U(x)) => Tok::U(UnverifiedBiscuit::from(x.to_vec().map_err(|e| format!("{e:?}"))?).map_err(|e| format!("reload: {e:?}"))?),
            (Step::SwitchApi, Tok::V(x)) => Tok::U(UnverifiedBiscuit::from(x.to_vec().map_err(|e| format!("{e:?}"))?).map_err(|e| format!("switch: {e:?}"))?),
            (Step::SwitchApi, Tok::U(x)) => Tok::V(x.clone().verify(root).map_err(|e| format!("switch/verify: {e:?}"))?),
        })
    });
    match r {
        Ok(r) => r,
        Err(p) => Err(format!("PANIC {} at {}:{}", p.message, p.site(), p.line)),
    }
}

pub fn test_case(ctx: &Ctx, case: &Case, rep: &mut Report) -> Result<(), Violation> {
    let pubs = publics(&case.keys);
    let root = case.root.public();
    let first = guard(|| -> Result<Biscuit, String> {
        case.authority
            .to_biscuit_builder(&pubs)
            .map_err(|e| format!("{e:?}"))?
            .build_with_key_pair(&case.root.keypair(), biscuit_auth::datalog::SymbolTable::default(), &case.first_next.keypair())
            .map_err(|e| format!("{e:?}"))
    });
    let first = match first {
        Ok(Ok(t)) => t,
        Ok(Err(e)) => return Err(v("api-build-error".into(), e)),
        Err(p) => return Err(v(format!("panic:{}", p.site()), p.message)),
    };
    let mut tok = if case.start_unverified {
        Tok::U(UnverifiedBiscuit::from(first.to_vec().unwrap()).map_err(|e| v("unverified-from-rejects-own-token".into(), format!("{e:?}")))?)
    } else {
        Tok::V(first)
    };
    let mut plan_blocks: Vec<(Block, Option<usize>)> = vec![(case.authority.clone(), None)];
    let has_third_with_keys = case.steps.iter().any(|s| matches!(s, Step::AppendThird(b, _, _) if b.all_rules().any(|r| r.scopes.iter().any(|x| matches!(x, Scope::Key(_)))) || b.scopes.iter().any(|x| matches!(x, Scope::Key(_)))));
    let inner_hop = case.steps.len() >= 2 && case.steps[..case.steps.len() - 1].iter().any(|s| matches!(s, Step::Reload | Step::SwitchApi));
    if has_third_with_keys || inner_hop {
        rep.nontrivial(hash64(case));
    }
    rep.sample(json!({"steps": case.steps.iter().map(|s| match s {
        Step::AppendFirst(..) => "append", Step::AppendThird(..) => "append_third_party", Step::Seal => "seal", Step::Reload => "reload", Step::SwitchApi => "switch_api" }).collect::<Vec<_>>(), "start_unverified": case.start_unverified}));

    let check_state = |tok: &Tok, step_no: usize, plan_blocks: &Vec<(Block, Option<usize>)>, rep: &mut Report| -> Result<(), Violation> {
        let kind = if matches!(tok, Tok::V(_)) { "verified" } else { "unverified" };
        rep.class(format!("state:{kind}"));
        let bytes = bytes_of(tok).map_err(|e| v("to_vec-error".into(), e))?;
        // R: the same kind of object obtained from the bytes
        let r = match tok {
            Tok::V(_) => Biscuit::from(&bytes, root).map(Tok::V).map_err(|e| format!("{e:?}")),
            Tok::U(_) => UnverifiedBiscuit::from(&bytes).map(Tok::U).map_err(|e| format!("{e:?}")),
        };
        let r = match r {
            Ok(r) => r,
            Err(e) => {
                return Err(v(
                    format!("reload-fails:{kind}"),
                    format!("after step {step_no}: the in-memory token serialises to bytes that do not load: {e}"),
                ))
            }
        };
        if bytes_of(&r).ok() != Some(bytes.clone()) {
            return Err(v(format!("reload-bytes-differ:{kind}"), format!("after step {step_no}")));
        }
        let sm = sources(tok);
        let sr = sources(&r);
        if sm != sr {
            return Err(v(
                format!("block-source-differs-after-reload:{kind}"),
                format!("after step {step_no}:\nin memory: {:#?}\nreloaded: {:#?}", sm, sr),
            ));
        }
        if sm.iter().any(|s| s.is_err()) {
            return Err(v(format!("block-source-error:{kind}"), format!("after step {step_no}: {:?}", sm)));
        }
        if let (Tok::V(m), Tok::V(rr)) = (tok, &r) {
            for i in 0..m.block_count() {
                if m.block_symbols(i).ok() != rr.block_symbols(i).ok() {
                    return Err(v("block-symbols-differ-after-reload".into(), format!("after step {step_no} block {i}: {:?} vs {:?}", m.block_symbols(i), rr.block_symbols(i))));
                }
                let k1 = m.block_public_keys(i).map(|k| k.into_inner()).map_err(|e| format!("{e:?}"));
                let k2 = rr.block_public_keys(i).map(|k| k.into_inner()).map_err(|e| format!("{e:?}"));
                if k1 != k2 {
                    return Err(v("block-public-keys-differ-after-reload".into(), format!("after step {step_no} block {i}: {:?} vs {:?}", k1, k2)));
                }
                if m.block_external_key(i).ok() != rr.block_external_key(i).ok() {
                    return Err(v("block-external-key-differs-after-reload".into(), format!("after step {step_no} block {i}")));
                }
            }
            if m.context() != rr.context() || m.revocation_identifiers() != rr.revocation_identifiers() {
                return Err(v("accessors-differ-after-reload".into(), format!("after step {step_no}")));
            }
        }
        // author fidelity: the printed source of block i parses to what the plan put there
        for (i, s) in sm.iter().enumerate() {
            let src = s.as_ref().unwrap();
            let (orig, _) = &plan_blocks[i];
            match guard(|| b::BlockBuilder::new().code(src)) {
                Ok(Ok(bb)) => {
                    let back = Block::from_builder(&bb, &pubs);
                    if back.facts != orig.facts || back.rules != orig.rules || back.checks != orig.checks {
                        return Err(v(
                            format!("block-source-is-not-what-the-author-wrote:{kind}"),
                            format!("after step {step_no} block {i} prints as\n{src}\nwhich parses to {:?}\nthe author wrote {:?}", back, orig),
                        ));
                    }
                }
                Ok(Err(e)) => {
                    return Err(v(
                        format!("block-source-does-not-parse:{kind}"),
                        format!("after step {step_no} block {i}:\n{src}\n{e:?}"),
                    ))
                }
                Err(p) => return Err(v(format!("panic:{}", p.site()), format!("parsing block source: {}", p.message))),
            }
        }
        // authorization: in memory vs reloaded vs reference
        let vm = to_verified(tok, root).map_err(|e| v(format!("verify-rejects-own-token:{kind}"), format!("after step {step_no}: {e}")))?;
        let vr = to_verified(&r, root).map_err(|e| v(format!("verify-rejects-reloaded-token:{kind}"), format!("after step {step_no}: {e}")))?;
        let rtok = RToken {
            blocks: plan_blocks.clone(),
        };
        for (k, a) in case.authorizers.iter().enumerate() {
            rep.evals(1);
            let om = authorize(Some(&vm), a, &pubs);
            let or = authorize(Some(&vr), a, &pubs);
            if om != or {
                return Err(v(
                    format!("authorization-differs-after-reload:{kind}"),
                    format!("after step {step_no}, authorizer {k}: in memory {:?}, reloaded {:?}\nsources in memory {:#?}", om, or, sm),
                ));
            }
            if let RefOutcome::One(exp) = RefAuthz::new(Some(&rtok), a).authorize(&no_externs) {
                if exp != om {
                    return Err(v(
                        format!("authorization-differs-from-reference:{kind}"),
                        format!("after step {step_no}, authorizer {k}: library {:?}, reference {:?}\nsources {:#?}", om, exp, sm),
                    ));
                }
            }
        }
        Ok(())
    };
    let tolerate = |r: Result<(), Violation>| -> Result<bool, Violation> {
        match r {
            Ok(()) => Ok(true),
            Err(vio) => {
                if ctx.tolerate(&vio) {
                    Ok(false)
                } else {
                    Err(vio)
                }
            }
        }
    };
    if !tolerate(check_state(&tok, 0, &plan_blocks, rep))? {
        return Ok(());
    }
    for (i, step) in case.steps.iter().enumerate() {
        let next = match apply(case, &tok, step, &pubs) {
            Ok(t) => t,
            Err(e) => {
                let kind = if matches!(tok, Tok::V(_)) { "verified" } else { "unverified" };
                let vio = if e.starts_with("PANIC") {
                    v(format!("panic-in-step:{kind}:{}", step_name(step)), format!("step {}: {e}", i + 1))
                } else {
                    v(format!("step-refused:{kind}:{}", step_name(step)), format!("step {}: {e}", i + 1))
                };
                if ctx.tolerate(&vio) {
                    return Ok(());
                }
                return Err(vio);
            }
        };
        match step {
            Step::AppendFirst(b, _) => plan_blocks.push((b.clone(), None)),
            Step::AppendThird(b, e, _) => plan_blocks.push((b.clone(), Some(*e % case.keys.len()))),
            _ => {}
        }
        tok = next;
        rep.class(format!("step:{}", step_name(step)));
        if !tolerate(check_state(&tok, i + 1, &plan_blocks, rep))? {
            return Ok(());
        }
    }
    Ok(())
}

fn step_name(s: &Step) -> &'static str {
    match s {
        Step::AppendFirst(..) => "append",
        Step::AppendThird(..) => "append_third_party",
        Step::Seal => "seal",
        Step::Reload => "reload",
        Step::SwitchApi => "switch_api",
    }
}

/// crafted tokens whose first-party block redeclares a symbol or key: must be refused
pub fn crafted_cases(ctx: &Ctx) {
    let kp = |s: u64| RSecret::from_keypair(&KeyPlan { alg: vcore::keys::Alg::Ed, seed: 0x5500 + s }.keypair());
    let root = kp(1);
    let root_pub = KeyPlan { alg: vcore::keys::Alg::Ed, seed: 0x5501 }.public();
    let key_a = KeyPlan { alg: vcore::keys::Alg::Ed, seed: 0x5510 }.public();
    let blk = |symbols: Vec<&str>, keys: Vec<PublicKey>| -> Vec<u8> {
        schema::Block {
            symbols: symbols.into_iter().map(|s| s.to_string()).collect(),
            context: None,
            version: Some(4),
            facts_v2: vec![],
            rules_v2: vec![],
            checks_v2: vec![],
            scope: vec![],
            public_keys: keys.iter().map(|k| k.to_proto()).collect(),
        }
        .encode_to_vec()
    };
    // (name, authority payload, second block payload)
    let cases: Vec<(&str, Vec<u8>, Option<Vec<u8>>)> = vec![
        ("symbol-of-earlier-block", blk(vec!["alpha"], vec![]), Some(blk(vec!["alpha"], vec![]))),
        ("default-symbol-in-authority", blk(vec!["read"], vec![]), None),
        ("default-symbol-in-block", blk(vec!["alpha"], vec![]), Some(blk(vec!["resource"], vec![]))),
        ("key-of-earlier-block", blk(vec![], vec![key_a]), Some(blk(vec![], vec![key_a]))),
        ("symbol-of-earlier-block-among-new-ones", blk(vec!["alpha", "beta"], vec![]), Some(blk(vec!["gamma", "beta"], vec![]))),
        ("default-symbol-among-new-ones", blk(vec!["alpha"], vec![]), Some(blk(vec!["beta", "operation"], vec![]))),
        ("key-of-earlier-block-among-new-ones", blk(vec![], vec![key_a]), Some(blk(vec![], vec![root_pub, key_a]))),
    ];
    // (a symbol or key repeated inside one block is not covered by the statement: not probed)
    let mut n = 0;
    for (name, auth, second) in cases {
        let mut signer = RefSigner::new(&root, &kp(2), &auth, 0, None);
        if let Some(s) = &second {
            signer.append(&kp(3), s, 0, None);
        }
        let bytes = signer.bytes();
        n += 1;
        let r1 = guard(|| Biscuit::from(&bytes, root_pub).is_ok());
        let r2 = guard(|| UnverifiedBiscuit::from(&bytes).is_ok());
        for (entry, r) in [("Biscuit::from", r1), ("UnverifiedBiscuit::from", r2)] {
            let vio = match r {
                Ok(false) => None,
                Ok(true) => Some(v(
                    format!("redeclaring-token-accepted:{name}"),
                    format!("{entry} accepted a token whose first-party block redeclares ({name}): {}", hex::encode(&bytes)),
                )),
                Err(p) => Some(v(format!("panic:{}", p.site()), format!("{entry} on {name}: {}", p.message))),
            };
            if let Some(vio) = vio {
                if !ctx.tolerate(&vio) {
                    ctx.violation("crafted", &vio, &json!({"crafted": name}));
                }
            }
        }
    }
    ctx.class_add("crafted_redeclaring_tokens", n);
}

pub fn run(ctx: &Ctx, replay: Option<&serde_json::Value>) {
    if let Some(r) = replay {
        if r["case"].get("crafted").is_some() {
            crafted_cases(ctx);
            return;
        }
        let case: Case = serde_json::from_value(r["case"].clone()).expect("bad replay case");
        ctx.run_list("histories", &[case], |c, r| test_case(ctx, c, r));
        return;
    }
    ctx.set_rule("histories of 1-7 steps over {append, append_third_party, seal, reload, switch_api} executed through the API the state is in (Biscuit or UnverifiedBiscuit), contents drawn from a small vocabulary so that strings, default symbols and public keys are shared across blocks, third-party blocks declaring their own strings and keys; after EVERY step the in-memory object is compared with its reload (block sources, symbols, keys, accessors, bytes, authorization under 2-4 authorizers incl. one trusting every key), with the author's AST (parse of the printed source) and with RefAuthz; plus 7 crafted redeclaring tokens; non-trivial = a third-party block using a key scope, or a reload / API switch strictly inside the history; distinct = hash(case)");
    ctx.assume("block-level scopes are not printed (open C14 finding): author fidelity compares facts, rules and checks");
    crafted_cases(ctx);
    let cases = ctx.tier.pick(16_000, 320_000);
    let cfg = cfg();
    ctx.run_prop(
        "histories",
        cases,
        || {
            let cfg = cfg.clone();
            from_tape(2400, move |t| gen_case(t, &cfg))
        },
        |c, r| test_case(ctx, c, r),
    );
}
