//! C20 - parameters are data, never code
use biscuit_auth::builder as b;
use biscuit_auth::PublicKey;
use serde::{Deserialize, Serialize};
use serde_json::json;
use std::collections::{BTreeMap, BTreeSet, HashMap};
use std::convert::TryFrom;
use vcore::ast::*;
use vcore::gen::*;
use vcore::keys::KeyPlan;
use vcore::runner::{Ctx, Report, Violation};
use vcore::tape::{from_tape, Tape};
use vcore::util::{guard, hash64};

#[derive(Clone, Debug, Serialize, Deserialize, Hash, PartialEq, Eq)]
pub enum Item {
    Fact(Pred),
    Rule(Rule),
    Check(Check),
    Policy(Policy),
}

#[derive(Clone, Debug, Serialize, Deserialize, Hash)]
pub struct Case {
    pub keys: Vec<KeyPlan>,
    /// the item with every parameter replaced by its value
    pub expected: Item,
    /// the item with `{name}` parameters
    pub template: Item,
    pub values: BTreeMap<String, Term>,
    pub scope_values: BTreeMap<String, usize>,
    /// names left unbound in the partial experiment
    pub unbound: BTreeSet<String>,
    /// position classes used (for the histogram)
    pub positions: Vec<String>,
    /// 0 = constructor API, 1 = parsed from text, 2 = code_with_params
    pub path: u8,
}

fn v(sig: String, detail: String) -> Violation {
    Violation::new(sig, detail)
}

pub(crate) struct Paramizer<'a> {
    pub(crate) t: &'a mut Tape,
    pub(crate) n: usize,
    pub(crate) values: BTreeMap<String, Term>,
    pub(crate) scope_values: BTreeMap<String, usize>,
    pub(crate) positions: Vec<String>,
    pub(crate) text_path: bool,
}

impl<'a> Paramizer<'a> {
    fn fresh(&mut self) -> String {
        self.n += 1;
        format!("p{}", self.n)
    }
    /// replace some ground sub-terms by parameters
    pub(crate) fn term(&mut self, t: &Term, pos: &str, depth: usize) -> Term {
        let ground_leaf = !matches!(t, Term::Var(_) | Term::Param(_));
        if ground_leaf && self.t.chance(1, 3) && self.n < 6 {
            // the same parameter can occur at several places (e.g. in two alternatives of a
            // check or policy) when the values agree
            let existing: Vec<String> = self.values.iter().filter(|(_, val)| *val == t).map(|(n, _)| n.clone()).collect();
            if !existing.is_empty() && self.t.chance(2, 3) {
                self.positions.push(format!("{pos}/shared-name"));
                return Term::Param(existing[0].clone());
            }
            let name = self.fresh();
            self.values.insert(name.clone(), t.clone());
            self.positions.push(if depth == 0 { pos.to_string() } else { format!("{pos}/nested") });
            return Term::Param(name);
        }
        match t {
            // the grammar wants homogeneous sets: parameters inside sets only through the
            // constructor API, and then every element
            Term::Set(s) if !self.text_path && self.t.chance(1, 4) && s.len() == 1 => {
                let e = s.iter().next().unwrap().clone();
                let name = self.fresh();
                self.values.insert(name.clone(), e);
                self.positions.push(format!("{pos}/set-element"));
                Term::Set([Term::Param(name)].into_iter().collect())
            }
            Term::Array(a) => Term::Array(a.iter().map(|x| self.term(x, pos, depth + 1)).collect()),
            Term::Map(m) => {
                let mut out = BTreeMap::new();
                for (k, x) in m {
                    let k2 = if self.t.chance(1, 3) && self.n < 6 {
                        let name = self.fresh();
                        self.values.insert(
                            name.clone(),
                            match k {
                                MapKey::Int(i) => Term::Int(*i),
                                MapKey::Str(s) => Term::Str(s.clone()),
                                MapKey::Param(p) => Term::Param(p.clone()),
                            },
                        );
                        self.positions.push(format!("{pos}/map-key"));
                        MapKey::Param(name)
                    } else {
                        k.clone()
                    };
                    out.insert(k2, self.term(x, &format!("{pos}/map-value"), depth + 1));
                }
                Term::Map(out)
            }
            t => t.clone(),
        }
    }
    pub(crate) fn pred(&mut self, p: &Pred, pos: &str) -> Pred {
        Pred {
            name: p.name.clone(),
            terms: p.terms.iter().map(|t| self.term(t, pos, 0)).collect(),
        }
    }
    fn ops(&mut self, ops: &[Op], pos: &str) -> Vec<Op> {
        ops.iter()
            .map(|o| match o {
                Op::Value(t) => Op::Value(self.term(t, pos, 0)),
                Op::Closure(p, body) => Op::Closure(p.clone(), self.ops(body, "closure")),
                o => o.clone(),
            })
            .collect()
    }
    pub(crate) fn rule(&mut self, r: &Rule, is_query: bool) -> Rule {
        Rule {
            head: if is_query { r.head.clone() } else { self.pred(&r.head, "rule-head") },
            body: r.body.iter().map(|p| self.pred(p, "rule-body")).collect(),
            exprs: r.exprs.iter().map(|e| Expr { ops: self.ops(&e.ops, "expression") }).collect(),
            scopes: r
                .scopes
                .iter()
                .map(|s| match s {
                    Scope::Key(k) if self.t.chance(1, 2) => {
                        // the same scope parameter can occur in several rules / alternatives
                        // when it stands for the same key
                        let existing: Vec<String> = self.scope_values.iter().filter(|(_, val)| *val == k).map(|(n, _)| n.clone()).collect();
                        if !existing.is_empty() && self.t.chance(2, 3) {
                            self.positions.push("scope/shared-name".into());
                            return Scope::Param(existing[0].clone());
                        }
                        let name = self.fresh();
                        self.scope_values.insert(name.clone(), *k);
                        self.positions.push("scope".into());
                        Scope::Param(name)
                    }
                    s => s.clone(),
                })
                .collect(),
        }
    }
}

pub fn gen_case(t: &mut Tape, cfg: &GenCfg) -> Case {
    let keys = gen_keys(t, cfg.n_keys);
    let mut cfg = cfg.clone();
    cfg.typed = t.chance(1, 2);
    let path = t.pick(3) as u8;
    let expected = match t.pick(4) {
        0 => Item::Fact(gen_fact(t, &cfg)),
        1 => Item::Rule(gen_rule(t, &cfg)),
        2 => Item::Check(gen_check(t, &cfg)),
        _ => Item::Policy(gen_policy(t, &cfg)),
    };
    let mut pz = Paramizer {
        t,
        n: 0,
        values: BTreeMap::new(),
        scope_values: BTreeMap::new(),
        positions: vec![],
        text_path: path != 0,
    };
    let template = match &expected {
        Item::Fact(p) => Item::Fact(pz.pred(p, "fact")),
        Item::Rule(r) => Item::Rule(pz.rule(r, false)),
        Item::Check(c) => Item::Check(Check {
            kind: c.kind,
            queries: c.queries.iter().map(|q| pz.rule(q, true)).collect(),
        }),
        Item::Policy(c) => Item::Policy(Policy {
            allow: c.allow,
            queries: c.queries.iter().map(|q| pz.rule(q, true)).collect(),
        }),
    };
    let (values, scope_values, positions) = (pz.values, pz.scope_values, pz.positions);
    let mut unbound = BTreeSet::new();
    for name in values.keys().chain(scope_values.keys()) {
        if t.chance(1, 3) {
            unbound.insert(name.clone());
        }
    }
    Case {
        keys,
        expected,
        template,
        values,
        scope_values,
        unbound,
        positions,
        path,
    }
}

enum LibItem {
    Fact(b::Fact),
    Rule(b::Rule),
    Check(b::Check),
    Policy(b::Policy),
}

impl LibItem {
    fn set(&mut self, name: &str, t: b::Term, lenient: bool) -> Result<(), biscuit_auth::error::Token> {
        match (self, lenient) {
            (LibItem::Fact(x), false) => x.set(name, t),
            (LibItem::Fact(x), true) => x.set_lenient(name, t),
            (LibItem::Rule(x), false) => x.set(name, t),
            (LibItem::Rule(x), true) => x.set_lenient(name, t),
            (LibItem::Check(x), false) => x.set(name, t),
            (LibItem::Check(x), true) => x.set_lenient(name, t),
            (LibItem::Policy(x), false) => x.set(name, t),
            (LibItem::Policy(x), true) => x.set_lenient(name, t),
        }
    }
    fn set_scope(&mut self, name: &str, k: PublicKey, lenient: bool) -> Result<(), biscuit_auth::error::Token> {
        match (self, lenient) {
            (LibItem::Fact(_), _) => Ok(()),
            (LibItem::Rule(x), false) => x.set_scope(name, k),
            (LibItem::Rule(x), true) => x.set_scope_lenient(name, k),
            (LibItem::Check(x), false) => x.set_scope(name, k),
            (LibItem::Check(x), true) => x.set_scope_lenient(name, k),
            (LibItem::Policy(x), false) => x.set_scope(name, k),
            (LibItem::Policy(x), true) => x.set_scope_lenient(name, k),
        }
    }
    fn print(&self) -> String {
        match self {
            LibItem::Fact(x) => x.to_string(),
            LibItem::Rule(x) => x.to_string(),
            LibItem::Check(x) => x.to_string(),
            LibItem::Policy(x) => x.to_string(),
        }
    }
    /// add to a builder (validates parameters); Err = missing parameter names
    fn add(&self) -> Result<(), Result<BTreeSet<String>, String>> {
        let r = match self {
            LibItem::Fact(x) => b::BlockBuilder::new().fact(x.clone()).map(|_| ()),
            LibItem::Rule(x) => b::BlockBuilder::new().rule(x.clone()).map(|_| ()),
            LibItem::Check(x) => b::BlockBuilder::new().check(x.clone()).map(|_| ()),
            LibItem::Policy(x) => b::AuthorizerBuilder::new().policy(x.clone()).map(|_| ()),
        };
        match r {
            Ok(()) => Ok(()),
            Err(biscuit_auth::error::Token::Language(biscuit_parser::error::LanguageError::Parameters {
                missing_parameters, ..
            })) => Err(Ok(missing_parameters.into_iter().collect())),
            Err(e) => Err(Err(format!("{e:?}"))),
        }
    }
    /// convert as a token / authorizer would: must not panic when fully bound
    fn build(&self) -> Result<String, String> {
        let root = KeyPlan { alg: vcore::keys::Alg::Ed, seed: 20 }.keypair();
        let next = KeyPlan { alg: vcore::keys::Alg::Ed, seed: 21 }.keypair();
        match self {
            LibItem::Policy(x) => {
                let a = b::AuthorizerBuilder::new().policy(x.clone()).map_err(|e| format!("{e:?}"))?;
                let _ = a.dump_code();
                let mut a = a.build_unauthenticated().map_err(|e| format!("{e:?}"))?;
                let _ = a.authorize();
                Ok(String::new())
            }
            other => {
                let bb = b::BiscuitBuilder::new();
                let bb = match other {
                    LibItem::Fact(x) => bb.fact(x.clone()),
                    LibItem::Rule(x) => bb.rule(x.clone()),
                    LibItem::Check(x) => bb.check(x.clone()),
                    LibItem::Policy(_) => unreachable!(),
                }
                .map_err(|e| format!("{e:?}"))?;
                let tok = bb
                    .build_with_key_pair(&root, biscuit_auth::datalog::SymbolTable::default(), &next)
                    .map_err(|e| format!("{e:?}"))?;
                tok.print_block_source(0).map_err(|e| format!("{e:?}"))
            }
        }
    }
}

fn to_lib(item: &Item, keys: &Vec<PublicKey>) -> LibItem {
    match item {
        Item::Fact(p) => LibItem::Fact(p.to_fact()),
        Item::Rule(r) => LibItem::Rule(r.to_b(keys)),
        Item::Check(c) => LibItem::Check(c.to_b(keys)),
        Item::Policy(c) => LibItem::Policy(c.to_b(keys)),
    }
}

fn parse(kind: &Item, text: &str, keys: &Vec<PublicKey>) -> Result<(LibItem, Item), String> {
    match kind {
        Item::Fact(_) => b::Fact::try_from(text).map(|x| {
            let i = Item::Fact(Pred::from_b(&x.predicate));
            (LibItem::Fact(x), i)
        }),
        Item::Rule(_) => b::Rule::try_from(text).map(|x| {
            let i = Item::Rule(Rule::from_b(&x, keys));
            (LibItem::Rule(x), i)
        }),
        Item::Check(_) => b::Check::try_from(text).map(|x| {
            let i = Item::Check(Check::from_b(&x, keys));
            (LibItem::Check(x), i)
        }),
        Item::Policy(_) => b::Policy::try_from(text).map(|x| {
            let i = Item::Policy(Policy::from_b(&x, keys));
            (LibItem::Policy(x), i)
        }),
    }
    .map_err(|e| format!("{e:?}"))
}

fn grammar_ok(item: &Item) -> bool {
    fn ops_ok(ops: &[Op]) -> bool {
        ops.iter().all(|o| match o {
            Op::Binary(Bin::And) | Op::Binary(Bin::Or) => false,
            Op::Closure(_, b) => ops_ok(b),
            _ => true,
        })
    }
    let r_ok = |r: &Rule| r.exprs.iter().all(|e| ops_ok(&e.ops));
    match item {
        Item::Fact(_) => true,
        Item::Rule(r) => r_ok(r),
        Item::Check(c) => c.queries.iter().all(r_ok),
        Item::Policy(c) => c.queries.iter().all(r_ok),
    }
}

pub fn test_case(ctx: &Ctx, case: &Case, rep: &mut Report) -> Result<(), Violation> {
    if !grammar_ok(&case.expected) {
        return Ok(());
    }
    let keys = vcore::keys::publics(&case.keys);
    let kind = match &case.expected {
        Item::Fact(_) => "fact",
        Item::Rule(_) => "rule",
        Item::Check(_) => "check",
        Item::Policy(_) => "policy",
    };
    let path = ["constructor", "text", "code_with_params"][case.path as usize % 3];
    rep.class(format!("path:{path}"));
    rep.class(format!("item:{kind}"));
    for p in &case.positions {
        rep.class(format!("position:{p}"));
    }
    let special_value = case.values.values().any(|t| {
        let mut s = vec![];
        t.strings(&mut s);
        s.iter().any(|x| x.contains('"') || x.contains('\\') || x.contains('{') || x.contains('}') || x.contains(';'))
    });
    if case.positions.iter().any(|p| p.contains("nested") || p.contains("map") || p.contains("expression") || p.contains("closure") || p.contains("scope") || p.contains("set"))
        || special_value
    {
        rep.nontrivial(hash64(case));
    }
    let template_text = match guard(|| to_lib(&case.template, &keys).print()) {
        Ok(s) => s,
        Err(_) => {
            // Display of an item with an UNBOUND parameter inside an expression panics (the
            // statement only covers fully bound items): such templates exist through the
            // constructor API only
            if case.path % 3 != 0 {
                rep.class("template_with_expression_parameter_has_no_text_form");
                return Ok(());
            }
            "<template with an unbound parameter in an expression: no text form>".to_string()
        }
    };
    rep.sample(json!({"template": template_text, "values": format!("{:?}", case.values), "scope_values": format!("{:?}", case.scope_values), "path": path}));
    let tol = |vio: Violation| -> Result<(), Violation> {
        if ctx.tolerate(&vio) {
            Ok(())
        } else {
            Err(vio)
        }
    };
    let pos_class = || {
        let mut c: Vec<&str> = vec![];
        for p in &case.positions {
            let k = if p.contains("map-key") {
                "map-key"
            } else if p.contains("set-element") {
                "set-element"
            } else if p.contains("closure") {
                "closure"
            } else if p.contains("expression") && p.contains("nested") {
                "expression-nested"
            } else if p.contains("nested") || p.contains("map-value") {
                "nested"
            } else if p.contains("scope") {
                "scope"
            } else if p.contains("expression") {
                "expression"
            } else {
                "top-level"
            };
            if !c.contains(&k) {
                c.push(k);
            }
        }
        c.sort();
        c.join("+")
    };

    // ---------------------------------------------------------------- code_with_params
    if case.path % 3 == 2 {
        let text = format!("{};", template_text);
        let params: HashMap<String, b::Term> = case.values.iter().map(|(k, t)| (k.clone(), t.to_b())).collect();
        let scope_params: HashMap<String, PublicKey> = case.scope_values.iter().map(|(k, i)| (k.clone(), keys[*i % keys.len()])).collect();
        let is_policy = matches!(case.expected, Item::Policy(_));
        rep.evals(1);
        let r = guard(|| -> Result<Item, String> {
            if is_policy {
                let ab = b::AuthorizerBuilder::new().code_with_params(&text, params.clone(), scope_params.clone()).map_err(|e| format!("ERR {e:?}"))?;
                let dump = ab.dump_code();
                let a = ab.build_unauthenticated().map_err(|e| format!("{e:?}"))?;
                let (_, _, _, p) = a.dump();
                let _ = dump;
                // Display applies the bound parameters
                let printed = p.first().ok_or("no policy")?.to_string();
                parse(&case.expected, &printed, &keys).map(|x| x.1).map_err(|e| format!("bound policy does not parse: {e}\n{printed}"))
            } else {
                let bb = b::BlockBuilder::new().code_with_params(&text, params.clone(), scope_params.clone()).map_err(|e| format!("ERR {e:?}"))?;
                let src = bb.to_string();
                let bb2 = b::BlockBuilder::new().code(&src).map_err(|e| format!("printed builder does not parse: {e:?}\n{src}"))?;
                let blk = Block::from_builder(&bb2, &keys);
                Ok(match &case.expected {
                    Item::Fact(_) => Item::Fact(blk.facts.first().cloned().ok_or("no fact")?),
                    Item::Rule(_) => Item::Rule(blk.rules.first().cloned().ok_or("no rule")?),
                    _ => Item::Check(blk.checks.first().cloned().ok_or("no check")?),
                })
            }
        });
        match r {
            Err(p) => tol(v(
                format!("panic:code_with_params:{}:{}", p.site(), pos_class()),
                format!("{} at {}:{}\n{text}\nparams {:?}", p.message, p.file, p.line, case.values),
            ))?,
            Ok(Err(e)) => tol(v(
                format!("code_with_params-refuses-bound-item:{}", pos_class()),
                format!("{e}\n{text}\nparams {:?} {:?}", case.values, case.scope_values),
            ))?,
            Ok(Ok(got)) => {
                if got != case.expected {
                    tol(v(
                        format!("code_with_params-wrong-substitution:{}", pos_class()),
                        format!("source {text}\nparams {:?}\nexpected {:?}\ngot {:?}", case.values, case.expected, got),
                    ))?;
                }
            }
        }
        return Ok(());
    }

    // ---------------------------------------------------------------- set / set_scope
    let make = || -> Result<LibItem, String> {
        if case.path % 3 == 0 {
            Ok(to_lib(&case.template, &keys))
        } else {
            parse(&case.expected, &template_text, &keys).map(|x| x.0).map_err(|e| format!("template does not parse: {e}\n{template_text}"))
        }
    };
    let mut item = match guard(make) {
        Ok(Ok(i)) => i,
        Ok(Err(e)) => return tol(v(format!("template-refused:{path}:{}", pos_class()), e)),
        Err(p) => return tol(v(format!("panic:{}:{}", p.site(), pos_class()), format!("making the template: {}", p.message))),
    };
    // unknown names: strict setters report, lenient ones ignore
    rep.evals(1);
    match guard(|| item.set("no_such_parameter", b::Term::Integer(1), false)) {
        Ok(Err(biscuit_auth::error::Token::Language(biscuit_parser::error::LanguageError::Parameters { unused_parameters, .. })))
            if unused_parameters == vec!["no_such_parameter".to_string()] => {}
        Ok(other) => tol(v(format!("strict-set-unknown-name:{kind}"), format!("{:?}", other.map_err(|e| format!("{e:?}")))))?,
        Err(p) => tol(v(format!("panic:{}", p.site()), p.message))?,
    }
    match guard(|| item.set("no_such_parameter", b::Term::Integer(1), true)) {
        Ok(Ok(())) => {}
        Ok(Err(e)) => tol(v(format!("lenient-set-unknown-name:{kind}"), format!("{e:?}")))?,
        Err(p) => tol(v(format!("panic:{}", p.site()), p.message))?,
    }
    // partial binding first
    let mut strict_errors = vec![];
    for (name, val) in &case.values {
        if case.unbound.contains(name) {
            continue;
        }
        match guard(|| item.set(name, val.to_b(), false)) {
            Ok(Ok(())) => {}
            Ok(Err(e)) => strict_errors.push(format!("set({name}): {e:?}")),
            Err(p) => return tol(v(format!("panic:{}:{}", p.site(), pos_class()), format!("set({name}): {}", p.message))),
        }
    }
    for (name, k) in &case.scope_values {
        if case.unbound.contains(name) {
            continue;
        }
        match guard(|| item.set_scope(name, keys[*k % keys.len()], false)) {
            Ok(Ok(())) => {}
            Ok(Err(e)) => strict_errors.push(format!("set_scope({name}): {e:?}")),
            Err(p) => return tol(v(format!("panic:{}", p.site()), format!("set_scope({name}): {}", p.message))),
        }
    }
    if !strict_errors.is_empty() {
        return tol(v(
            format!("set-refuses-existing-parameter:{path}:{}", pos_class()),
            format!("{:?}\ntemplate {template_text}", strict_errors),
        ));
    }
    if !case.unbound.is_empty() {
        rep.class("partially_bound");
        match guard(|| item.add()) {
            Ok(Err(Ok(missing))) => {
                // checks and policies report the first alternative that is incomplete: the
                // reported names must be unbound ones, and there must be some
                if missing.is_empty() || !missing.is_subset(&case.unbound) {
                    tol(v(
                        format!("wrong-missing-parameter-set:{path}:{}", pos_class()),
                        format!("reported {:?}, unbound {:?}\ntemplate {template_text}", missing, case.unbound),
                    ))?;
                }
            }
            Ok(Ok(())) => tol(v(
                format!("item-with-unbound-parameters-accepted:{path}:{}", pos_class()),
                format!("unbound {:?}\ntemplate {template_text}", case.unbound),
            ))?,
            Ok(Err(Err(e))) => tol(v(format!("unexpected-error-on-partial-item:{path}"), e))?,
            Err(p) => tol(v(format!("panic:{}:{}", p.site(), pos_class()), format!("adding a partially bound item: {}", p.message)))?,
        }
        // bind the rest (lenient setters this time)
        for name in &case.unbound {
            if let Some(val) = case.values.get(name) {
                let _ = guard(|| item.set(name, val.to_b(), true));
            }
            if let Some(k) = case.scope_values.get(name) {
                let _ = guard(|| item.set_scope(name, keys[*k % keys.len()], true));
            }
        }
    }
    // fully bound now
    rep.class("fully_bound");
    match guard(|| item.add()) {
        Ok(Ok(())) => {}
        Ok(Err(Ok(missing))) => {
            return tol(v(
                format!("bound-item-refused:{path}:{}", pos_class()),
                format!("missing {:?}\ntemplate {template_text}\nvalues {:?}", missing, case.values),
            ))
        }
        Ok(Err(Err(e))) => return tol(v(format!("bound-item-refused:{path}:{}", pos_class()), e)),
        Err(p) => return tol(v(format!("panic:{}:{}", p.site(), pos_class()), format!("adding the bound item: {}", p.message))),
    }
    let printed = match guard(|| item.print()) {
        Ok(s) => s,
        Err(p) => {
            return tol(v(
                format!("panic-on-bound-item:{path}:{}", pos_class()),
                format!("Display: {} at {}:{}\ntemplate {template_text}\nvalues {:?}", p.message, p.file, p.line, case.values),
            ))
        }
    };
    match parse(&case.expected, &printed, &keys) {
        Ok((_, got)) => {
            if got != case.expected {
                tol(v(
                    format!("wrong-substitution:{path}:{}", pos_class()),
                    format!("template {template_text}\nvalues {:?}\nbound item prints as {printed}\nexpected {:?}\ngot {:?}", case.values, case.expected, got),
                ))?;
            }
        }
        Err(e) => tol(v(
            format!("bound-item-does-not-parse:{path}:{}", pos_class()),
            format!("{e}\nprinted {printed}"),
        ))?,
    }
    // conversion (token / authorizer) must not panic; the block source is the expected item
    match guard(|| item.build()) {
        Err(p) => tol(v(
            format!("panic-on-bound-item:{path}:{}", pos_class()),
            format!("build: {} at {}:{}\ntemplate {template_text}\nvalues {:?}", p.message, p.file, p.line, case.values),
        ))?,
        Ok(Err(_)) => {
            rep.class("build_refused");
        }
        Ok(Ok(src)) => {
            if !src.is_empty() {
                if let Ok(bb) = b::BlockBuilder::new().code(&src) {
                    let blk = Block::from_builder(&bb, &keys);
                    let got = match &case.expected {
                        Item::Fact(_) => blk.facts.first().cloned().map(Item::Fact),
                        Item::Rule(_) => blk.rules.first().cloned().map(Item::Rule),
                        Item::Check(_) => blk.checks.first().cloned().map(Item::Check),
                        Item::Policy(_) => None,
                    };
                    if let Some(got) = got {
                        if got != case.expected {
                            tol(v(
                                format!("wrong-substitution-in-token:{path}:{}", pos_class()),
                                format!("template {template_text}\nvalues {:?}\nblock source {src}", case.values),
                            ))?;
                        }
                    }
                }
            }
        }
    }
    Ok(())
}

pub fn run(ctx: &Ctx, replay: Option<&serde_json::Value>) {
    if let Some(r) = replay {
        let case: Case = serde_json::from_value(r["case"].clone()).expect("bad replay case");
        ctx.run_list("items", &[case], |c, r| test_case(ctx, c, r));
        return;
    }
    ctx.set_rule("a generated ground item (fact, rule, check, policy; grammar-normal, every term type, strings from the full character set incl. Datalog syntax) is turned into a template by replacing up to 6 ground sub-terms (top-level, nested in arrays / maps, map keys, set elements, expression operands, inside closures) and key scopes by {name} parameters; the removed values are bound back through set / set_lenient / set_scope (constructor API or parsed text) or code_with_params, a generated subset first left unbound; oracle: the bound item equals the original item (through Display -> parse and through token -> print_block_source -> parse), partial items are refused with exactly the unbound names, unknown names are reported by strict setters only, nothing panics; non-trivial = a parameter in a nested / map / expression / closure / scope / set position or a value with quote, backslash, braces or semicolon; distinct = hash(case)");
    let cases = ctx.tier.pick(600_000, 8_000_000);
    let cfg = GenCfg {
        typed: false,
        grammar_normal: true,
        strict_bool_ops: false,
        wild_strings: true,
        n_keys: 3,
        ..GenCfg::default()
    };
    ctx.run_prop(
        "items",
        cases,
        || {
            let cfg = cfg.clone();
            from_tape(500, move |t| gen_case(t, &cfg))
        },
        |c, r| test_case(ctx, c, r),
    );
}
