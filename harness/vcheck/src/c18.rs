//! C18 - compile-time Datalog macros equal runtime parsing
//!
//! Generation happens before a build: cases (source text with `{parameters}` + bindings) are
//! drawn from the grammar, kept when the run-time path accepts them, and written as 16 generated
//! binaries of the `c18gen` crate, each case invoking the macro next to the run-time path. The
//! binaries print both renderings; the comparison is done here.
use crate::c20::Paramizer;
use biscuit_auth::builder as b;
use serde::{Deserialize, Serialize};
use serde_json::{json, Value};
use std::collections::{BTreeMap, HashMap};
use std::convert::TryFrom;
use std::fmt::Write as _;
use std::path::PathBuf;
use std::process::Command;
use vcore::ast::*;
use vcore::gen::*;
use vcore::keys::{Alg, KeyPlan};
use vcore::runner::{Ctx, Report, Tier, Violation};
use vcore::tape::Tape;
use vcore::text;
use vcore::util::{derive_seed, guard, hash64};

#[derive(Clone, Copy, Debug, Serialize, Deserialize, Hash, PartialEq)]
pub enum Kind {
    Block,
    BlockMerge,
    Biscuit,
    BiscuitMerge,
    Authorizer,
    AuthorizerMerge,
    Fact,
    Rule,
    Check,
    Policy,
}

#[derive(Clone, Debug, Serialize, Deserialize, Hash)]
pub struct Binding {
    pub name: String,
    pub value: Term,
    /// 0 = `name = <typed Rust value>`, 1 = `name = <Term>`, 2 / 3 = the same, captured from a
    /// local variable of that name
    pub style: u8,
}

#[derive(Clone, Debug, Serialize, Deserialize, Hash)]
pub struct ScopeBinding {
    pub name: String,
    pub key: KeyPlan,
    pub implicit: bool,
}

#[derive(Clone, Debug, Serialize, Deserialize, Hash)]
pub struct Source {
    pub text: String,
    pub bindings: Vec<Binding>,
    pub scope_bindings: Vec<ScopeBinding>,
}

#[derive(Clone, Debug, Serialize, Deserialize, Hash)]
pub struct Case {
    pub kind: Kind,
    /// one source, two for the `_merge` forms
    pub sources: Vec<Source>,
    pub classes: Vec<String>,
    pub nontrivial: bool,
}

// ---------------------------------------------------------------------------------------------
// generation
// ---------------------------------------------------------------------------------------------

fn alg_no(k: &KeyPlan) -> u8 {
    match k.alg {
        Alg::Ed => 0,
        Alg::P256 => 1,
    }
}

struct SrcGen<'a> {
    t: &'a mut Tape,
    cfg: GenCfg,
    keys: Vec<KeyPlan>,
    classes: Vec<String>,
    nontrivial: bool,
}

fn ops_classes(ops: &[Op], depth: usize, classes: &mut Vec<String>, has_param_below: &mut bool) {
    for o in ops {
        match o {
            Op::Value(t) => {
                let mut p = false;
                t.visit(&mut |x| {
                    if matches!(x, Term::Param(_)) {
                        p = true;
                    }
                });
                if let Term::Map(m) = t {
                    if m.keys().any(|k| matches!(k, MapKey::Param(_))) {
                        p = true;
                    }
                }
                if p {
                    *has_param_below = true;
                    classes.push(format!("param-in-expression/closure-depth-{depth}"));
                }
                classes.push(format!("term:{}", t.type_name()));
            }
            Op::Unary(u) => classes.push(format!("op:{:?}", u).split('(').next().unwrap().to_string()),
            Op::Binary(b) => classes.push(format!("op:{:?}", b).split('(').next().unwrap().to_string()),
            Op::Closure(params, body) => {
                classes.push(format!("closure/{}-params/depth-{}", params.len(), depth + 1));
                ops_classes(body, depth + 1, classes, has_param_below);
            }
        }
    }
}

impl<'a> SrcGen<'a> {
    /// one source: items of the kinds the target accepts, parameterised
    fn source(&mut self, with_policies: bool, single: Option<Kind>, name_offset: usize) -> Option<Source> {
        let publics = vcore::keys::publics(&self.keys);
        let cfg = self.cfg.clone();
        let (nf, nr, nc, np) = match single {
            Some(Kind::Fact) => (1, 0, 0, 0),
            Some(Kind::Rule) => (0, 1, 0, 0),
            Some(Kind::Check) => (0, 0, 1, 0),
            Some(Kind::Policy) => (0, 0, 0, 1),
            _ => (self.t.range(0, 3), self.t.range(0, 2), self.t.range(0, 2), if with_policies { self.t.range(0, 2) } else { 0 }),
        };
        let facts: Vec<Pred> = (0..nf).map(|_| gen_fact(self.t, &cfg)).collect();
        let rules: Vec<Rule> = (0..nr).map(|_| gen_rule(self.t, &cfg)).collect();
        let checks: Vec<Check> = (0..nc).map(|_| gen_check(self.t, &cfg)).collect();
        let policies: Vec<Policy> = (0..np).map(|_| gen_policy(self.t, &cfg)).collect();
        let mut pz = Paramizer {
            t: self.t,
            n: name_offset,
            values: BTreeMap::new(),
            scope_values: BTreeMap::new(),
            positions: vec![],
            text_path: true,
        };
        let facts: Vec<Pred> = facts.iter().map(|p| pz.pred(p, "fact")).collect();
        let rules: Vec<Rule> = rules.iter().map(|r| pz.rule(r, false)).collect();
        let checks: Vec<Check> = checks
            .iter()
            .map(|c| Check {
                kind: c.kind,
                queries: c.queries.iter().map(|q| pz.rule(q, true)).collect(),
            })
            .collect();
        let policies: Vec<Policy> = policies
            .iter()
            .map(|c| Policy {
                allow: c.allow,
                queries: c.queries.iter().map(|q| pz.rule(q, true)).collect(),
            })
            .collect();
        let (values, scope_values, positions) = (pz.values, pz.scope_values, pz.positions);
        // text
        let mut items: Vec<String> = vec![];
        for f in &facts {
            items.push(text::pred(f));
        }
        for r in &rules {
            items.push(text::rule(r, &publics)?);
        }
        for c in &checks {
            items.push(text::check(c, &publics)?);
        }
        for p in &policies {
            items.push(text::policy(p, &publics)?);
        }
        // parameters deep inside closures (explicit ones, and the implicit closures of && / ||)
        let (mut values, mut scope_values) = (values, scope_values);
        if (single.is_none() || single == Some(Kind::Check)) && self.t.chance(1, 4) {
            // names the parameteriser never uses (a term and a scope parameter of the same
            // name cannot be bound to two values through a macro)
            let a = format!("q{}", name_offset + 1);
            let bname = format!("q{}", name_offset + 2);
            let int_v = Term::Int(*self.t.choose(&[0i64, 2, 3, 100]));
            let bool_v = Term::Bool(self.t.chance(1, 2));
            let (txt, used): (String, Vec<(&String, &Term)>) = match self.t.pick(5) {
                0 => (format!("check if [[1, 2], [3]].all($a -> $a.any($b -> $b < {{{a}}}))"), vec![(&a, &int_v)]),
                1 => (format!("check if [1, 2].all($x -> $x > 0 && $x < {{{a}}})"), vec![(&a, &int_v)]),
                2 => (format!("check if {{{bname}}} || ([1].any($x -> $x == {{{a}}}) && {{{bname}}})"), vec![(&a, &int_v), (&bname, &bool_v)]),
                3 => (format!("check if {{1, 2}}.any($x -> [$x, 3].all($y -> $y >= $x || {{{bname}}}))"), vec![(&bname, &bool_v)]),
                _ => (format!("check all user($u), [[{{{a}}}]].any($l -> $l.all($e -> $e == {{{a}}} && {{{bname}}}))"), vec![(&a, &int_v), (&bname, &bool_v)]),
            };
            if single.is_some() {
                values.clear();
                scope_values.clear();
            }
            for (n, v) in used {
                values.insert(n.clone(), v.clone());
            }
            self.classes.push("template:nested-closure-parameter".into());
            self.nontrivial = true;
            if single.is_some() {
                items = vec![txt];
            } else {
                items.push(txt);
            }
        }
        let text = if single.is_some() {
            items.join("")
        } else {
            let mut s = items.join(";\n");
            if !items.is_empty() && self.t.chance(3, 4) {
                s.push(';');
            }
            s
        };
        // classes
        for p in &positions {
            self.classes.push(format!("position:{p}"));
            if p != "fact" {
                self.nontrivial = true;
            }
        }
        let all_rules: Vec<&Rule> = rules.iter().chain(checks.iter().flat_map(|c| c.queries.iter())).chain(policies.iter().flat_map(|c| c.queries.iter())).collect();
        for r in &all_rules {
            for e in &r.exprs {
                let mut below = false;
                let before = self.classes.len();
                ops_classes(&e.ops, 0, &mut self.classes, &mut below);
                if self.classes[before..].iter().any(|c| c.starts_with("closure")) {
                    self.nontrivial = true;
                }
            }
            for s in &r.scopes {
                self.nontrivial = true;
                self.classes.push(
                    match s {
                        Scope::Authority => "scope:authority",
                        Scope::Previous => "scope:previous",
                        Scope::Key(_) => "scope:key",
                        Scope::Param(_) => "scope:param",
                    }
                    .to_string(),
                );
            }
            for p in r.body.iter().chain([&r.head]) {
                for t in &p.terms {
                    t.visit(&mut |x| {
                        if matches!(x, Term::Map(_)) {
                            self.nontrivial = true;
                        }
                    });
                }
            }
        }
        for c in &checks {
            self.classes.push(format!("check:{:?}", c.kind));
        }
        for f in facts.iter() {
            for t in &f.terms {
                t.visit(&mut |x| self.classes.push(format!("term:{}", x.type_name())));
                t.visit(&mut |x| {
                    if matches!(x, Term::Map(_)) {
                        self.nontrivial = true;
                    }
                });
            }
        }
        let bindings = values
            .into_iter()
            .map(|(name, value)| Binding {
                name,
                value,
                style: self.t.pick(4) as u8,
            })
            .collect();
        let scope_bindings = scope_values
            .into_iter()
            .map(|(name, k)| ScopeBinding {
                name,
                key: self.keys[k % self.keys.len()].clone(),
                implicit: self.t.chance(1, 3),
            })
            .collect();
        Some(Source { text, bindings, scope_bindings })
    }
}

pub fn gen_case(t: &mut Tape) -> Option<Case> {
    let kind = *t.choose(&[
        Kind::Block,
        Kind::Block,
        Kind::BlockMerge,
        Kind::Biscuit,
        Kind::BiscuitMerge,
        Kind::Authorizer,
        Kind::Authorizer,
        Kind::AuthorizerMerge,
        Kind::Fact,
        Kind::Rule,
        Kind::Rule,
        Kind::Check,
        Kind::Check,
        Kind::Policy,
    ]);
    let cfg = GenCfg {
        typed: t.chance(2, 3),
        grammar_normal: true,
        strict_bool_ops: false,
        max_facts: 3,
        max_rules: 2,
        max_checks: 2,
        ..GenCfg::default()
    };
    let keys = gen_keys(t, 3);
    let mut g = SrcGen {
        t,
        cfg,
        keys,
        classes: vec![],
        nontrivial: false,
    };
    let with_policies = matches!(kind, Kind::Authorizer | Kind::AuthorizerMerge);
    let single = if matches!(kind, Kind::Fact | Kind::Rule | Kind::Check | Kind::Policy) { Some(kind) } else { None };
    let mut sources = vec![g.source(with_policies, single, 0)?];
    if matches!(kind, Kind::BlockMerge | Kind::BiscuitMerge | Kind::AuthorizerMerge) {
        sources.push(g.source(with_policies, None, 10)?);
    }
    let mut classes = g.classes;
    classes.push(format!("kind:{kind:?}"));
    classes.sort();
    classes.dedup();
    Some(Case {
        kind,
        sources,
        classes,
        nontrivial: g.nontrivial,
    })
}

/// the run-time path accepts the sources with these bindings
fn runtime_accepts(case: &Case) -> bool {
    guard(|| {
        for (i, s) in case.sources.iter().enumerate() {
            let params: HashMap<String, b::Term> = s.bindings.iter().map(|x| (x.name.clone(), x.value.to_b())).collect();
            let scope_params: HashMap<String, biscuit_auth::PublicKey> = s.scope_bindings.iter().map(|x| (x.name.clone(), x.key.public())).collect();
            let ok = match case.kind {
                Kind::Block | Kind::BlockMerge => b::BlockBuilder::new().code_with_params(&s.text, params, scope_params).is_ok(),
                Kind::Biscuit | Kind::BiscuitMerge => b::BiscuitBuilder::new().code_with_params(&s.text, params, scope_params).is_ok(),
                Kind::Authorizer | Kind::AuthorizerMerge => b::AuthorizerBuilder::new().code_with_params(&s.text, params, scope_params).is_ok(),
                Kind::Fact => b::Fact::try_from(s.text.as_str())
                    .and_then(|mut x| {
                        for (n, v) in &params {
                            x.set(n, v.clone())?;
                        }
                        b::BlockBuilder::new().fact(x).map(|_| ())
                    })
                    .is_ok(),
                Kind::Rule => b::Rule::try_from(s.text.as_str())
                    .and_then(|mut x| {
                        for (n, v) in &params {
                            x.set(n, v.clone())?;
                        }
                        for (n, v) in &scope_params {
                            x.set_scope(n, *v)?;
                        }
                        b::BlockBuilder::new().rule(x).map(|_| ())
                    })
                    .is_ok(),
                Kind::Check => b::Check::try_from(s.text.as_str())
                    .and_then(|mut x| {
                        for (n, v) in &params {
                            x.set(n, v.clone())?;
                        }
                        for (n, v) in &scope_params {
                            x.set_scope(n, *v)?;
                        }
                        b::BlockBuilder::new().check(x).map(|_| ())
                    })
                    .is_ok(),
                Kind::Policy => b::Policy::try_from(s.text.as_str())
                    .and_then(|mut x| {
                        for (n, v) in &params {
                            x.set(n, v.clone())?;
                        }
                        for (n, v) in &scope_params {
                            x.set_scope(n, *v)?;
                        }
                        b::AuthorizerBuilder::new().policy(x).map(|_| ())
                    })
                    .is_ok(),
            };
            let _ = i;
            if !ok {
                return false;
            }
        }
        true
    })
    .unwrap_or(false)
}

// ---------------------------------------------------------------------------------------------
// code emission
// ---------------------------------------------------------------------------------------------

fn typed_rust(t: &Term) -> String {
    match t {
        Term::Int(i) => format!("{i}i64"),
        Term::Bool(b) => format!("{b}"),
        Term::Str(s) => {
            if s.len() % 2 == 0 {
                format!("{s:?}")
            } else {
                format!("String::from({s:?})")
            }
        }
        Term::Bytes(b) => format!("vec![{}]", b.iter().map(|x| format!("{x}u8")).collect::<Vec<_>>().join(", ")),
        Term::Date(d) => format!("(::std::time::UNIX_EPOCH + ::std::time::Duration::from_secs({d}u64))"),
        Term::Set(s) => format!("::std::collections::BTreeSet::<::biscuit_auth::builder::Term>::from_iter(vec![{}])", s.iter().map(text::term_rust).collect::<Vec<_>>().join(", ")),
        t => text::term_rust(t),
    }
}

fn key_rust(k: &KeyPlan) -> String {
    format!("c18gen::key({}, {}u64)", alg_no(k), k.seed)
}

fn macro_name(kind: Kind, merge_step: bool) -> &'static str {
    match (kind, merge_step) {
        (Kind::Block, _) | (Kind::BlockMerge, false) => "block",
        (Kind::BlockMerge, true) => "block_merge",
        (Kind::Biscuit, _) | (Kind::BiscuitMerge, false) => "biscuit",
        (Kind::BiscuitMerge, true) => "biscuit_merge",
        (Kind::Authorizer, _) | (Kind::AuthorizerMerge, false) => "authorizer",
        (Kind::AuthorizerMerge, true) => "authorizer_merge",
        (Kind::Fact, _) => "fact",
        (Kind::Rule, _) => "rule",
        (Kind::Check, _) => "check",
        (Kind::Policy, _) => "policy",
    }
}

fn render_fn(kind: Kind) -> &'static str {
    match kind {
        Kind::Block | Kind::BlockMerge => "render_block",
        Kind::Biscuit | Kind::BiscuitMerge => "render_biscuit",
        Kind::Authorizer | Kind::AuthorizerMerge => "render_authorizer",
        Kind::Fact => "render_fact",
        Kind::Rule => "render_rule",
        Kind::Check => "render_check",
        Kind::Policy => "render_policy",
    }
}

pub fn emit_case(id: u32, case: &Case) -> String {
    let mut o = String::new();
    let _ = writeln!(o, "fn case_{id}() -> (::serde_json::Value, ::serde_json::Value) {{");
    // macro side
    let _ = writeln!(o, "    let m = c18gen::catch(|| {{");
    for (i, s) in case.sources.iter().enumerate() {
        let mut args = String::new();
        let _ = writeln!(o, "        let __b{i} = {{");
        for bd in &s.bindings {
            let value = if bd.style % 2 == 0 { typed_rust(&bd.value) } else { text::term_rust(&bd.value) };
            if bd.style >= 2 {
                let _ = writeln!(o, "            let {} = {};", bd.name, value);
            } else {
                let _ = write!(args, ", {} = {}", bd.name, value);
            }
        }
        for sb in &s.scope_bindings {
            if sb.implicit {
                let _ = writeln!(o, "            let {} = {};", sb.name, key_rust(&sb.key));
            } else {
                let _ = write!(args, ", {} = {}", sb.name, key_rust(&sb.key));
            }
        }
        let target = if i == 0 { String::new() } else { format!("__b{}, ", i - 1) };
        let _ = writeln!(o, "            ::biscuit_auth::macros::{}!({}{:?}{})", macro_name(case.kind, i > 0), target, s.text, args);
        let _ = writeln!(o, "        }};");
    }
    let _ = writeln!(o, "        c18gen::{}(__b{})", render_fn(case.kind), case.sources.len() - 1);
    let _ = writeln!(o, "    }});");
    // run-time side
    let _ = writeln!(o, "    let r = c18gen::catch(|| {{");
    match case.kind {
        Kind::Block | Kind::BlockMerge | Kind::Biscuit | Kind::BiscuitMerge | Kind::Authorizer | Kind::AuthorizerMerge => {
            let ty = match case.kind {
                Kind::Block | Kind::BlockMerge => "BlockBuilder",
                Kind::Biscuit | Kind::BiscuitMerge => "BiscuitBuilder",
                _ => "AuthorizerBuilder",
            };
            let _ = writeln!(o, "        let mut __b = ::biscuit_auth::builder::{ty}::new();");
            for s in &case.sources {
                let _ = writeln!(o, "        let mut params: ::std::collections::HashMap<String, ::biscuit_auth::builder::Term> = ::std::collections::HashMap::new();");
                let _ = writeln!(o, "        let mut scope_params: ::std::collections::HashMap<String, ::biscuit_auth::PublicKey> = ::std::collections::HashMap::new();");
                for bd in &s.bindings {
                    let _ = writeln!(o, "        params.insert({:?}.to_string(), {});", bd.name, text::term_rust(&bd.value));
                }
                for sb in &s.scope_bindings {
                    let _ = writeln!(o, "        scope_params.insert({:?}.to_string(), {});", sb.name, key_rust(&sb.key));
                }
                let _ = writeln!(o, "        __b = __b.code_with_params({:?}, params, scope_params).map_err(|e| format!(\"{{e:?}}\"))?;", s.text);
            }
            let _ = writeln!(o, "        c18gen::{}(__b)", render_fn(case.kind));
        }
        _ => {
            let ty = match case.kind {
                Kind::Fact => "Fact",
                Kind::Rule => "Rule",
                Kind::Check => "Check",
                _ => "Policy",
            };
            let s = &case.sources[0];
            let _ = writeln!(o, "        let mut __x = <::biscuit_auth::builder::{ty} as ::std::convert::TryFrom<&str>>::try_from({:?}).map_err(|e| format!(\"{{e:?}}\"))?;", s.text);
            for bd in &s.bindings {
                let _ = writeln!(o, "        __x.set({:?}, {}).map_err(|e| format!(\"{{e:?}}\"))?;", bd.name, text::term_rust(&bd.value));
            }
            for sb in &s.scope_bindings {
                let _ = writeln!(o, "        __x.set_scope({:?}, {}).map_err(|e| format!(\"{{e:?}}\"))?;", sb.name, key_rust(&sb.key));
            }
            let _ = writeln!(o, "        c18gen::{}(__x)", render_fn(case.kind));
        }
    }
    let _ = writeln!(o, "    }});");
    let _ = writeln!(o, "    (m, r)");
    let _ = writeln!(o, "}}");
    o
}

fn harness_dir() -> PathBuf {
    vcore::runner::verif_root().join("harness")
}

/// write the binaries; returns, per binary, the (first line, last line, case id) table
fn write_bins(cases: &[(u32, &Case)], nbins: usize) -> Vec<Vec<(usize, usize, u32)>> {
    let dir = harness_dir().join("c18gen/src/bin");
    let _ = std::fs::remove_dir_all(&dir);
    std::fs::create_dir_all(&dir).expect("create src/bin");
    let mut tables = vec![];
    for k in 0..nbins {
        let mut src = String::from("// generated by `vcheck C18`; do not edit\n#![allow(warnings)]\n");
        let mut table = vec![];
        let mut ids = vec![];
        for (id, case) in cases.iter().filter(|(id, _)| *id as usize % nbins == k) {
            let first = src.lines().count() + 1;
            src.push_str(&emit_case(*id, case));
            table.push((first, src.lines().count(), *id));
            ids.push(*id);
        }
        let _ = writeln!(src, "fn main() {{");
        let _ = writeln!(src, "    let cases: Vec<(u32, fn() -> (::serde_json::Value, ::serde_json::Value))> = vec![{}];", ids.iter().map(|i| format!("({i}, case_{i})")).collect::<Vec<_>>().join(", "));
        let _ = writeln!(src, "    c18gen::run(&cases);\n}}");
        std::fs::write(dir.join(format!("g{k:02}.rs")), src).expect("write generated binary");
        tables.push(table);
    }
    tables
}

enum BuildResult {
    Ok,
    /// (case id, message) of the compile errors that could be attributed, and the raw log
    Errors(Vec<(u32, String)>, String),
}

fn build_bins(tables: &[Vec<(usize, usize, u32)>]) -> BuildResult {
    let out = Command::new("cargo")
        .args(["build", "--profile", "verif", "--offline", "-q", "-p", "c18gen", "--bins"])
        .current_dir(harness_dir())
        .env("CARGO_NET_OFFLINE", "true")
        .output()
        .expect("run cargo");
    if out.status.success() {
        return BuildResult::Ok;
    }
    let log = String::from_utf8_lossy(&out.stderr).to_string();
    // error[..]: message \n --> c18gen/src/bin/gNN.rs:LINE:COL
    let mut errs = vec![];
    let mut last_msg = String::new();
    for line in log.lines() {
        if line.starts_with("error") {
            last_msg = line.to_string();
        }
        if let Some(pos) = line.find("src/bin/g") {
            let rest = &line[pos + "src/bin/g".len()..];
            let k: usize = rest[..2].parse().unwrap_or(0);
            let ln: usize = rest.split(':').nth(1).and_then(|x| x.parse().ok()).unwrap_or(0);
            if let Some(t) = tables.get(k) {
                if let Some((_, _, id)) = t.iter().find(|(a, b, _)| *a <= ln && ln <= *b) {
                    if !errs.iter().any(|(i, _)| i == id) {
                        errs.push((*id, last_msg.clone()));
                    }
                }
            }
        }
    }
    BuildResult::Errors(errs, log)
}

fn run_bins(nbins: usize) -> Result<HashMap<u32, (Value, Value)>, String> {
    let mut results = HashMap::new();
    let handles: Vec<_> = (0..nbins)
        .map(|k| {
            std::thread::spawn(move || {
                let exe = harness_dir().join(format!("target/verif/g{k:02}"));
                Command::new(exe).output()
            })
        })
        .collect();
    for (k, h) in handles.into_iter().enumerate() {
        let out = h.join().map_err(|_| "thread".to_string())?.map_err(|e| format!("g{k:02}: {e}"))?;
        for line in String::from_utf8_lossy(&out.stdout).lines() {
            if let Ok(v) = serde_json::from_str::<Value>(line) {
                if let Some(id) = v["id"].as_u64() {
                    results.insert(id as u32, (v["macro"].clone(), v["runtime"].clone()));
                }
            }
        }
        if !out.status.success() {
            return Err(format!("generated binary g{k:02} died: {}", out.status));
        }
    }
    Ok(results)
}

fn compare(case: &Case, m: &Value, r: &Value) -> Result<(), Violation> {
    let kind = format!("{:?}", case.kind);
    let show = |v: &Value| serde_json::to_string(v).unwrap_or_default().chars().take(1500).collect::<String>();
    match (m["ok"].as_bool().unwrap_or(false), r["ok"].as_bool().unwrap_or(false)) {
        (true, true) => {
            let ma = m["render"].as_array().cloned().unwrap_or_default();
            let ra = r["render"].as_array().cloned().unwrap_or_default();
            for (x, y) in ma.iter().zip(ra.iter()) {
                if x != y {
                    let field = x[0].as_str().unwrap_or("?");
                    return Err(Violation::new(format!("diverge:{kind}:{field}"), format!("{field} differs\nmacro:    {}\nrun time: {}\nsources: {:?}", show(&x[1]), show(&y[1]), case.sources)));
                }
            }
            if ma.len() != ra.len() {
                return Err(Violation::new(format!("diverge:{kind}:render-length"), "renderings of different length".to_string()));
            }
            Ok(())
        }
        (false, false) => Ok(()),
        (mo, _) => Err(Violation::new(
            format!("diverge:{kind}:{}-fails", if mo { "runtime" } else { "macro" }),
            format!("one side fails\nmacro:    {}\nrun time: {}\nsources: {:?}", show(m), show(r), case.sources),
        )),
    }
}

/// build and run a set of cases; None when the machinery itself failed (reported as exit 2)
fn evaluate(ctx: &Ctx, cases: &[(u32, &Case)], nbins: usize) -> Option<Vec<(u32, Violation)>> {
    let r = evaluate_inner(ctx, cases, nbins);
    // the generated sources are not kept: left behind, they would be rebuilt by every later
    // build of the workspace (unless VERIF_KEEP_GENERATED is set, for debugging)
    if std::env::var("VERIF_KEEP_GENERATED").is_err() {
        let _ = std::fs::remove_dir_all(harness_dir().join("c18gen/src/bin"));
    }
    r
}

fn evaluate_inner(ctx: &Ctx, cases: &[(u32, &Case)], nbins: usize) -> Option<Vec<(u32, Violation)>> {
    let tables = write_bins(cases, nbins);
    let mut violations = vec![];
    match build_bins(&tables) {
        BuildResult::Ok => {}
        BuildResult::Errors(errs, log) => {
            if errs.is_empty() {
                ctx.note(format!("the generated crate does not build and no error could be attributed to a case:\n{}", log.chars().take(3000).collect::<String>()));
                ctx.extra("aborted", json!(true));
                return None;
            }
            // a source the run-time path accepts does not compile as a macro
            for (id, msg) in &errs {
                violations.push((*id, Violation::new("diverge:compile-error".to_string(), format!("the macro invocation does not compile although the run-time path accepts the source: {msg}"))));
            }
            return Some(violations);
        }
    }
    let results = match run_bins(nbins) {
        Ok(r) => r,
        Err(e) => {
            ctx.note(e);
            ctx.extra("aborted", json!(true));
            return None;
        }
    };
    for (id, case) in cases {
        match results.get(id) {
            Some((m, r)) => {
                if let Err(v) = compare(case, m, r) {
                    violations.push((*id, v));
                }
            }
            None => violations.push((*id, Violation::new("no-result".to_string(), "the generated binary printed no result for this case".to_string()))),
        }
    }
    Some(violations)
}

/// smaller variants of a failing case: each item alone, each binding style normalised
fn shrink_candidates(case: &Case) -> Vec<Case> {
    let mut out = vec![];
    if case.sources.len() == 2 {
        for s in &case.sources {
            let mut c = case.clone();
            c.kind = match case.kind {
                Kind::BlockMerge => Kind::Block,
                Kind::BiscuitMerge => Kind::Biscuit,
                _ => Kind::Authorizer,
            };
            c.sources = vec![s.clone()];
            out.push(c);
        }
    }
    if case.sources.len() == 1 && !matches!(case.kind, Kind::Fact | Kind::Rule | Kind::Check | Kind::Policy) {
        let s = &case.sources[0];
        let items: Vec<&str> = s.text.split(";\n").map(|x| x.trim_end_matches(';')).filter(|x| !x.is_empty()).collect();
        if items.len() > 1 {
            for it in items {
                let mut c = case.clone();
                c.sources = vec![Source {
                    text: format!("{it};"),
                    bindings: s.bindings.iter().filter(|b| it.contains(&format!("{{{}}}", b.name))).cloned().collect(),
                    scope_bindings: s.scope_bindings.iter().filter(|b| it.contains(&format!("{{{}}}", b.name))).cloned().collect(),
                }];
                out.push(c);
            }
        }
    }
    out.into_iter().filter(runtime_accepts).collect()
}

pub fn run(ctx: &Ctx, replay: Option<&Value>) {
    if let Some(r) = replay {
        let case: Case = serde_json::from_value(r["case"].clone()).expect("bad replay case");
        let cases = vec![(0u32, &case)];
        if let Some(vs) = evaluate(ctx, &cases, 1) {
            let mut rep = Report::default();
            rep.nontrivial(hash64(&case));
            ctx.merge(rep);
            for (_, v) in vs {
                if !ctx.tolerate(&v) {
                    ctx.violation("case", &v, &serde_json::to_value(&case).unwrap());
                }
            }
        }
        return;
    }
    ctx.set_rule("cases = (macro kind among biscuit!/block!/authorizer!/their _merge forms/fact!/rule!/check!/policy!, one or two Datalog sources printed from generated ASTs with every term type, operator, closure, scope and check kind, `{parameters}` substituted for ground sub-terms in facts, rule heads and bodies, nested collection elements, map keys and values, expression operands inside and outside closures, scopes; bindings of every Rust type implementing ToAnyParam: i64, bool, &str, String, Vec<u8>, SystemTime, BTreeSet<Term>, Term, PublicKey; given as `name = value` or captured from a local variable). Kept when the run-time path accepts source and bindings. Each case is emitted into one of 16 generated binaries: the macro invocation next to code_with_params / try_from + set / set_scope, both under catch_unwind, both rendered by the same functions (Display, dump_code, token bytes with fixed keys, printed block source, snapshot bytes, authorization outcome with and without a token). oracle: both sides succeed with identical renderings, or both fail; a compile error in a generated invocation is a divergence. non-trivial = a parameter outside a top-level fact term, or a closure, scope or map; distinct = hash(case)");
    ctx.assume("macro hygiene against the caller's surrounding code is not explored: every invocation sits in its own closure with only its captured parameters in scope");
    let target = match ctx.tier {
        Tier::Quick => 1600usize,
        Tier::Thorough => 24_000,
    };
    let nbins = 16;
    // generation: deterministic from the seed
    let mut cases: Vec<Case> = vec![];
    let mut drawn = 0u64;
    let mut rejected = 0u64;
    {
        use rand::{RngCore, SeedableRng};
        let mut rng = rand_chacha::ChaCha8Rng::from_seed(derive_seed(ctx.seed, "C18/cases", 0));
        let mut seen = std::collections::HashSet::new();
        while cases.len() < target && drawn < 20 * target as u64 {
            drawn += 1;
            let len = 40 + (rng.next_u32() % 500) as usize;
            let data: Vec<u16> = (0..len).map(|_| rng.next_u32() as u16).collect();
            let mut t = Tape::new(data);
            match gen_case(&mut t) {
                Some(c) if c.sources.iter().any(|s| !s.text.is_empty()) && runtime_accepts(&c) => {
                    if seen.insert(hash64(&c)) {
                        cases.push(c);
                    }
                }
                _ => rejected += 1,
            }
        }
    }
    ctx.class_add("generated", drawn);
    ctx.class_add("rejected_by_runtime_path", rejected);
    let indexed: Vec<(u32, &Case)> = cases.iter().enumerate().map(|(i, c)| (i as u32, c)).collect();
    let Some(violations) = evaluate(ctx, &indexed, nbins) else { return };
    for (i, c) in cases.iter().enumerate() {
        let mut rep = Report::default();
        for cl in &c.classes {
            rep.class(cl.clone());
        }
        if c.nontrivial {
            rep.nontrivial(hash64(c));
        }
        if i < 3 {
            rep.sample(json!({"kind": format!("{:?}", c.kind), "sources": c.sources.iter().map(|s| s.text.clone()).collect::<Vec<_>>(), "bindings": c.sources.iter().map(|s| s.bindings.iter().map(|b| format!("{} = {:?} (style {})", b.name, b.value, b.style)).collect::<Vec<_>>()).collect::<Vec<_>>()}));
        }
        ctx.merge(rep);
    }
    // report: one (shrunk) case per signature
    let mut by_sig: BTreeMap<String, (u32, Violation)> = BTreeMap::new();
    for (id, v) in violations {
        if ctx.tolerate(&v) {
            continue;
        }
        let smaller = by_sig.get(&v.signature).map(|(old, _)| serde_json::to_string(&cases[id as usize]).unwrap().len() < serde_json::to_string(&cases[*old as usize]).unwrap().len()).unwrap_or(true);
        if smaller {
            by_sig.insert(v.signature.clone(), (id, v));
        }
    }
    if by_sig.is_empty() {
        return;
    }
    // one shrinking round: the items of each failing case alone, in one more generated crate
    let mut candidates: Vec<(String, Case)> = vec![];
    for (sig, (id, _)) in &by_sig {
        for c in shrink_candidates(&cases[*id as usize]) {
            candidates.push((sig.clone(), c));
        }
    }
    let mut shrunk: BTreeMap<String, (Case, Violation)> = BTreeMap::new();
    if !candidates.is_empty() {
        let idx: Vec<(u32, &Case)> = candidates.iter().enumerate().map(|(i, (_, c))| (i as u32, c)).collect();
        if let Some(vs) = evaluate(ctx, &idx, nbins.min(idx.len()).max(1)) {
            for (id, v) in vs {
                let (sig, c) = &candidates[id as usize];
                if &v.signature == sig || v.signature.split(':').nth(2) == sig.split(':').nth(2) {
                    let better = shrunk.get(sig).map(|(old, _)| serde_json::to_string(c).unwrap().len() < serde_json::to_string(old).unwrap().len()).unwrap_or(true);
                    if better {
                        shrunk.insert(sig.clone(), (c.clone(), v));
                    }
                }
            }
        }
    }
    for (sig, (id, v)) in by_sig {
        match shrunk.remove(&sig) {
            Some((c, v2)) => {
                let v3 = Violation::new(sig, v2.detail);
                ctx.violation("case", &v3, &serde_json::to_value(&c).unwrap());
            }
            None => {
                ctx.violation("case", &v, &serde_json::to_value(&cases[id as usize]).unwrap());
            }
        }
    }
}
