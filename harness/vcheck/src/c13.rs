//! C13 - authorizer snapshots and saved policies restore the same authorizer
use crate::c04::{lib_query, show_case};
use biscuit_auth::builder as b;
use biscuit_auth::{Authorizer, AuthorizerLimits};
use prost::Message;
use serde::{Deserialize, Serialize};
use serde_json::json;
use std::collections::BTreeSet;
use std::time::Duration;
use vcore::ast::*;
use vcore::authz::*;
use vcore::gen::*;
use vcore::runner::{Ctx, Report, Violation};
use vcore::tape::{from_tape, Tape};
use vcore::tokens::*;
use vcore::util::{guard, hash64};

#[derive(Clone, Copy, Debug, Serialize, Deserialize, Hash, PartialEq, Eq)]
pub enum Stage {
    BeforeRun,
    AfterAuthorize,
    AfterQuery,
    AfterFailedRun,
}

#[derive(Clone, Copy, Debug, Serialize, Deserialize, Hash, PartialEq, Eq)]
pub enum Form {
    Struct,
    Raw,
    Base64,
}

#[derive(Clone, Debug, Serialize, Deserialize, Hash)]
pub struct Case {
    pub plan: Option<TokenPlan>,
    pub authorizer: AuthorizerAst,
    pub probes: Vec<Rule>,
    pub stage: Stage,
    pub form: Form,
}

fn v(sig: String, detail: String) -> Violation {
    Violation::new(sig, detail)
}

pub fn gen_case(t: &mut Tape, cfg: &GenCfg) -> Case {
    let mut cfg = cfg.clone();
    cfg.sigs = gen_sig_subset(t);
    let plan = if t.chance(5, 6) {
        let mut p = gen_token_plan(t, &cfg, 3);
        p.seal = t.chance(1, 8);
        Some(p)
    } else {
        None
    };
    let authorizer = gen_authorizer(t, &cfg);
    let np = t.range(1, 2);
    let probes = (0..np).map(|_| gen_rule(t, &cfg)).collect();
    let stage = *t.choose(&[Stage::BeforeRun, Stage::AfterAuthorize, Stage::AfterQuery, Stage::AfterFailedRun]);
    let form = *t.choose(&[Form::Struct, Form::Raw, Form::Base64]);
    Case {
        plan,
        authorizer,
        probes,
        stage,
        form,
    }
}

fn limits_for(case: &Case) -> AuthorizerLimits {
    match case.stage {
        // a limit that a productive program exhausts at once
        Stage::AfterFailedRun => AuthorizerLimits {
            max_facts: 1_000_000,
            max_iterations: 1,
            max_time: Duration::from_secs(600),
        },
        _ => big_limits(),
    }
}

/// what an authorizer is, observed structurally
#[derive(Debug, PartialEq, Eq)]
struct View {
    world: std::collections::BTreeMap<BTreeSet<usize>, BTreeSet<Pred>>,
    rules: BTreeSet<Rule>,
    checks: Vec<Check>,
    policies: Vec<Policy>,
    limits: (u64, u64, Duration),
    iterations: u64,
}

fn view_of(a: &Authorizer, keys: &[biscuit_auth::PublicKey]) -> Result<View, String> {
    let keys = keys.to_vec();
    let world = world_of(a)?;
    let d = guard(|| a.dump()).map_err(|p| format!("dump panic: {} at {}:{}", p.message, p.site(), p.line))?;
    let (_f, r, c, p) = d;
    Ok(View {
        world,
        rules: r.iter().map(|x| Rule::from_b(x, &keys)).collect(),
        checks: c.iter().map(|x| Check::from_b(x, &keys)).collect(),
        policies: p.iter().map(|x| Policy::from_b(x, &keys)).collect(),
        limits: (a.limits().max_facts, a.limits().max_iterations, a.limits().max_time),
        iterations: a.iterations(),
    })
}

fn restore(a: &Authorizer, form: Form) -> Result<Authorizer, String> {
    let r = guard(|| -> Result<Authorizer, String> {
        match form {
            Form::Struct => Authorizer::from_snapshot(a.snapshot().map_err(|e| format!("snapshot: {e:?}"))?).map_err(|e| format!("{e:?}")),
            Form::Raw => Authorizer::from_raw_snapshot(&a.to_raw_snapshot().map_err(|e| format!("snapshot: {e:?}"))?).map_err(|e| format!("{e:?}")),
            Form::Base64 => Authorizer::from_base64_snapshot(&a.to_base64_snapshot().map_err(|e| format!("snapshot: {e:?}"))?).map_err(|e| format!("{e:?}")),
        }
    });
    match r {
        Ok(r) => r,
        Err(p) => Err(format!("PANIC {} at {}:{}", p.message, p.site(), p.line)),
    }
}

pub fn test_case(ctx: &Ctx, case: &Case, rep: &mut Report) -> Result<(), Violation> {
    let pubs = case.plan.as_ref().map(|p| p.publics()).unwrap_or_else(|| vcore::keys::publics(&[vcore::keys::KeyPlan { alg: vcore::keys::Alg::Ed, seed: 1 }, vcore::keys::KeyPlan { alg: vcore::keys::Alg::Ed, seed: 2 }, vcore::keys::KeyPlan { alg: vcore::keys::Alg::P256, seed: 3 }, vcore::keys::KeyPlan { alg: vcore::keys::Alg::Ed, seed: 4 }]));
    let token = match &case.plan {
        None => None,
        Some(plan) => match guard(|| build_token(plan)) {
            Ok(Ok(t)) => Some(t),
            Ok(Err(e)) => return Err(v("api-build-error".into(), format!("{e:?}"))),
            Err(p) => return Err(v(format!("panic:{}", p.site()), p.message)),
        },
    };
    let third = case.plan.as_ref().map(|p| p.steps.iter().any(|s| s.is_third())).unwrap_or(false);
    rep.class(format!("stage:{:?}", case.stage));
    rep.class(format!("form:{:?}", case.form));
    rep.class(if token.is_some() { "with_token" } else { "without_token" });
    if third {
        rep.class("third_party_block");
    }
    if third || case.stage != Stage::BeforeRun {
        rep.nontrivial(hash64(case));
    }
    let shown = match &case.plan {
        Some(plan) => show_case(&crate::c04::Case {
            plan: plan.clone(),
            authorizer: case.authorizer.clone(),
            probes: vec![],
        }),
        None => json!({"authorizer": case.authorizer.to_builder(&pubs).map(|a| a.dump_code()).unwrap_or_default()}),
    };
    rep.sample(json!({"stage": format!("{:?}", case.stage), "form": format!("{:?}", case.form), "input": shown.clone()}));
    let ctx_s = || format!("stage {:?} form {:?}\n{}", case.stage, case.form, serde_json::to_string_pretty(&shown).unwrap());
    let tol = |vio: Violation| -> Result<(), Violation> {
        if ctx.tolerate(&vio) {
            Ok(())
        } else {
            Err(vio)
        }
    };

    // --- the builder snapshot (no token)
    {
        let ab = case
            .authorizer
            .to_builder(&pubs)
            .map_err(|e| v("authorizer-builder-error".into(), format!("{e:?}")))?
            .limits(limits_for(case));
        let r = guard(|| -> Result<b::AuthorizerBuilder, String> {
            match case.form {
                Form::Struct => b::AuthorizerBuilder::from_snapshot(ab.snapshot().map_err(|e| format!("snapshot: {e:?}"))?).map_err(|e| format!("{e:?}")),
                Form::Raw => b::AuthorizerBuilder::from_raw_snapshot(&ab.to_raw_snapshot().map_err(|e| format!("snapshot: {e:?}"))?).map_err(|e| format!("{e:?}")),
                Form::Base64 => b::AuthorizerBuilder::from_base64_snapshot(&ab.to_base64_snapshot().map_err(|e| format!("snapshot: {e:?}"))?).map_err(|e| format!("{e:?}")),
            }
        });
        match r {
            Err(p) => return Err(v(format!("panic:{}", p.site()), format!("builder snapshot: {}\n{}", p.message, ctx_s()))),
            Ok(Err(e)) => tol(v("builder-restore-fails".into(), format!("{e}\n{}", ctx_s())))?,
            Ok(Ok(ab2)) => {
                let a1 = ab.clone().build_unauthenticated();
                let a2 = ab2.build_unauthenticated();
                if let (Ok(mut a1), Ok(mut a2)) = (a1, a2) {
                    let (v1, v2) = (view_of(&a1, &pubs), view_of(&a2, &pubs));
                    if v1 != v2 {
                        tol(v("builder-restore-differs".into(), format!("original {:?}\nrestored {:?}\n{}", v1, v2, ctx_s())))?;
                    }
                    let (o1, o2) = (guard(|| a1.authorize()).map(normalize), guard(|| a2.authorize()).map(normalize));
                    if o1.as_ref().ok() != o2.as_ref().ok() {
                        tol(v("builder-restore-authorizes-differently".into(), format!("{:?} vs {:?}\n{}", o1, o2, ctx_s())))?;
                    }
                }
            }
        }
    }

    // --- saved policies
    {
        if let Ok(a) = build_authorizer(None, &case.authorizer, &pubs, big_limits()) {
            let r = guard(|| -> Result<Authorizer, String> {
                let saved = a.save().map_err(|e| format!("save: {e:?}"))?;
                let bytes = saved.serialize().map_err(|e| format!("serialize: {e:?}"))?;
                Authorizer::from(&bytes).map_err(|e| format!("{e:?}"))
            });
            match r {
                Err(p) => return Err(v(format!("panic:{}", p.site()), format!("saved policies: {}\n{}", p.message, ctx_s()))),
                Ok(Err(e)) => {
                    let key_scope = case
                        .authorizer
                        .block
                        .all_rules()
                        .chain(case.authorizer.policies.iter().flat_map(|p| p.queries.iter()))
                        .any(|r| r.scopes.iter().any(|s| matches!(s, Scope::Key(_))));
                    tol(v(
                        if key_scope { "policies-restore-fails:key-scope".into() } else { "policies-restore-fails".into() },
                        format!("{e}\n{}", ctx_s()),
                    ))?
                }
                Ok(Ok(mut a2)) => {
                    let mut a1 = a.clone();
                    let (d1, d2) = (guard(|| a1.dump()), guard(|| a2.dump()));
                    if let (Ok(d1), Ok(d2)) = (d1, d2) {
                        let pubsv = pubs.to_vec();
                        let same = d1.2.iter().map(|x| Check::from_b(x, &pubsv)).collect::<Vec<_>>() == d2.2.iter().map(|x| Check::from_b(x, &pubsv)).collect::<Vec<_>>()
                            && d1.3.iter().map(|x| Policy::from_b(x, &pubsv)).collect::<Vec<_>>() == d2.3.iter().map(|x| Policy::from_b(x, &pubsv)).collect::<Vec<_>>();
                        if !same {
                            tol(v("policies-restore-differs".into(), ctx_s()))?;
                        }
                    }
                    // authorizer-level scope is not part of AuthorizerPolicies
                    if case.authorizer.block.scopes.is_empty() {
                        let (o1, o2) = (guard(|| a1.authorize()).map(normalize), guard(|| a2.authorize()).map(normalize));
                        if o1.as_ref().ok() != o2.as_ref().ok() {
                            tol(v("policies-restore-authorizes-differently".into(), format!("original {:?}\nrestored {:?}\n{}", o1, o2, ctx_s())))?;
                        }
                    }
                }
            }
        }
    }

    // --- the authorizer snapshot at the chosen stage
    let mut a = match build_authorizer(token.as_ref(), &case.authorizer, &pubs, limits_for(case)) {
        Ok(a) => a,
        Err(_) => {
            rep.class("authorizer_build_refused");
            return Ok(());
        }
    };
    match case.stage {
        Stage::BeforeRun => {}
        Stage::AfterAuthorize | Stage::AfterFailedRun => {
            let _ = guard(|| a.authorize());
        }
        Stage::AfterQuery => {
            if let Some(p) = case.probes.first() {
                let _ = lib_query(&mut a, p, &pubs, true);
            }
        }
    }
    rep.evals(1);
    let mut restored = match restore(&a, case.form) {
        Ok(r) => r,
        Err(e) => {
            let sig = if e.starts_with("PANIC") {
                "panic-in-restore"
            } else if third {
                "restore-fails:token-with-third-party-block"
            } else {
                "restore-fails"
            };
            tol(v(sig.into(), format!("{e}\n{}", ctx_s())))?;
            return Ok(());
        }
    };
    let (v1, v2) = (view_of(&a, &pubs), view_of(&restored, &pubs));
    match (&v1, &v2) {
        (Ok(x), Ok(y)) => {
            if x != y {
                let what = if x.world != y.world {
                    "facts"
                } else if x.rules != y.rules {
                    "rules"
                } else if x.checks != y.checks {
                    "checks"
                } else if x.policies != y.policies {
                    "policies"
                } else if x.limits != y.limits {
                    "limits"
                } else {
                    "iterations"
                };
                tol(v(format!("restored-view-differs:{what}"), format!("original {:?}\nrestored {:?}\n{}", x, y, ctx_s())))?;
            }
        }
        _ => tol(v("view-error".into(), format!("{:?} / {:?}\n{}", v1.as_ref().err(), v2.as_ref().err(), ctx_s())))?,
    }
    // second generation snapshot
    if let (Ok(s1), Ok(s2)) = (guard(|| a.snapshot()), guard(|| restored.snapshot())) {
        if let (Ok(s1), Ok(s2)) = (s1, s2) {
            if s1.encode_to_vec().len() != s2.encode_to_vec().len() && s1.world.blocks.len() != s2.world.blocks.len() {
                tol(v("second-generation-snapshot-differs".into(), ctx_s()))?;
            }
        }
    }
    // behaviour
    let mut a2 = a.clone();
    let (o1, o2) = (guard(|| a2.authorize()).map(normalize), guard(|| restored.authorize()).map(normalize));
    match (&o1, &o2) {
        (Ok(x), Ok(y)) => {
            if x != y {
                let sig = if third { "restored-authorizes-differently:token-with-third-party-block" } else { "restored-authorizes-differently" };
                tol(v(sig.into(), format!("original {:?}\nrestored {:?}\n{}", x, y, ctx_s())))?;
            }
        }
        (Err(p), _) | (_, Err(p)) => return Err(v(format!("panic:{}", p.site()), format!("authorize: {} at {}:{}\n{}", p.message, p.file, p.line, ctx_s()))),
    }
    for (k, probe) in case.probes.iter().enumerate() {
        for all in [false, true] {
            let q1 = lib_query(&mut a2, probe, &pubs, all);
            let q2 = lib_query(&mut restored, probe, &pubs, all);
            let norm = |q: &Result<BTreeSet<Pred>, String>| match q {
                Ok(s) => format!("{:?}", s),
                Err(e) => format!("ERR {}", e.split('(').next().unwrap_or("")),
            };
            if norm(&q1) != norm(&q2) {
                tol(v(
                    if all { "restored-query_all-differs".into() } else { "restored-query-differs".into() },
                    format!("probe {k} {:?}: original {:?} restored {:?}\n{}", probe, q1, q2, ctx_s()),
                ))?;
            }
        }
    }
    Ok(())
}

pub fn run(ctx: &Ctx, replay: Option<&serde_json::Value>) {
    if let Some(r) = replay {
        let case: Case = serde_json::from_value(r["case"].clone()).expect("bad replay case");
        ctx.run_list("snapshots", &[case], |c, r| test_case(ctx, c, r));
        return;
    }
    ctx.set_rule("(optional TokenPlan with first/third-party blocks, key scopes naming earlier and later blocks) x AuthorizerAst x stage in {before run, after authorize, after a query, after a run that hit the iteration limit} x form in {struct, raw, base64}; AuthorizerBuilder snapshot; save() -> AuthorizerPolicies -> Authorizer::from; oracle: restore succeeds, structural view (facts per origin, rules, checks, policies, limits, iterations) equal, authorize() and query/query_all on probes equal; non-trivial = token with a third-party block, or stage other than before-run; distinct = hash(case)");
    ctx.assume("max_time within u64 nanoseconds (wire format limit)");
    let cases = ctx.tier.pick(120_000, 1_600_000);
    let cfg = GenCfg {
        max_facts: 4,
        max_rules: 2,
        max_checks: 2,
        n_keys: 3,
        ..GenCfg::default()
    };
    ctx.run_prop(
        "snapshots",
        cases,
        || {
            let cfg = cfg.clone();
            from_tape(1600, move |t| gen_case(t, &cfg))
        },
        |c, r| test_case(ctx, c, r),
    );
}
