//! C15 - revocation identifiers are stable, unique and not malleable
use crate::c01::{gen_case, prepare, Case};
use biscuit_auth::{Biscuit, UnverifiedBiscuit};
use serde_json::json;
use std::collections::HashSet;
use vcore::gen::GenCfg;
use vcore::mutate::*;
use vcore::refcrypto::*;
use vcore::runner::{Ctx, Report, Violation};
use vcore::tape::{from_tape, Tape};
use vcore::tokens::*;
use vcore::util::{guard, hash64};
use vcore::wire::WToken;

fn v(sig: String, detail: String) -> Violation {
    Violation::new(sig, detail)
}

fn tol(ctx: &Ctx, r: Result<(), Violation>) -> Result<(), Violation> {
    match r {
        Err(v) if ctx.tolerate(&v) => Ok(()),
        other => other,
    }
}

/// signature-level transformations that may keep a token verifiable
const REENCODINGS: &[&str] = &[
    "sig_ecdsa_high_s",
    "sig_der_nonminimal",
    "sig_ed_s_plus_l",
    "sig_extend",
    "sig_truncate",
    "sig_flip",
    "version_change",
    "nextkey_sec1_uncompressed",
    "ext_sig_high_s",
    "ext_key_sec1_uncompressed",
    "payload_reencode_unknown_field",
];
const CONTAINER_REENCODINGS: &[&str] = &["root_key_id_change", "reorder_fields", "proof_seal_high_s", "byte_flip"];

/// mint the plan through the OS-RNG entry points (build / append / append_third_party)
fn mint_os_rng(plan: &TokenPlan) -> Result<Vec<Biscuit>, BErr> {
    let pubs = plan.publics();
    let mut bb = plan.authority.to_biscuit_builder(&pubs)?;
    if let Some(id) = plan.root_key_id {
        bb = bb.root_key_id(id);
    }
    let mut toks = vec![bb.build(&plan.root.keypair())?];
    for st in &plan.steps {
        let cur = toks.last().unwrap();
        let next = match st {
            Step::First { block, .. } => cur.append(block.to_builder(&pubs)?)?,
            Step::Third { block, ext, .. } => {
                let kp = plan.keys[*ext % plan.keys.len()].keypair();
                let req = cur.third_party_request()?;
                let tp = req.create_block(&kp.private(), block.to_builder(&pubs)?)?;
                cur.append_third_party(kp.public(), tp)?
            }
        };
        toks.push(next);
    }
    Ok(toks)
}

pub fn test_case(ctx: &Ctx, case: &Case, rep: &mut Report) -> Result<(), Violation> {
    let plan = &case.plan;
    let (toks, fin) = match guard(|| build_history(plan)) {
        Ok(Ok(x)) => x,
        Ok(Err(e)) => return Err(v("api-build-error".into(), format!("{e:?}"))),
        Err(p) => return Err(v(format!("panic:{}", p.site()), p.message)),
    };
    rep.class(format!("blocks={}", plan.block_count()));
    rep.class(format!("root={}", plan.root.alg.name()));
    let root_pub = plan.root.public();

    // --- stability along the history
    let mut prev: Vec<Vec<u8>> = vec![];
    for (k, t) in toks.iter().enumerate() {
        let ids = t.revocation_identifiers();
        if ids.len() != k + 1 {
            return Err(v("id-count".into(), format!("step {k}: {} ids", ids.len())));
        }
        if ids[..prev.len()] != prev[..] {
            return Err(v(
                "ids-not-stable-under-attenuation".into(),
                format!("step {k} shape {}", plan.shape()),
            ));
        }
        // equal to wire signatures as read by the independent reader
        let bytes = t.to_vec().map_err(|e| v("to_vec-error".into(), format!("{e:?}")))?;
        let w = WToken::decode(&bytes).map_err(|e| v("harness-decode".into(), e))?;
        let sigs: Vec<Vec<u8>> = w.all_blocks().iter().map(|b| b.signature.clone()).collect();
        if sigs != ids {
            return Err(v("ids-are-not-block-signatures".into(), format!("step {k}")));
        }
        // reload, unverified, verify
        let r = Biscuit::from(&bytes, root_pub).map_err(|e| v("from-rejects-own-token".into(), format!("{e:?}")))?;
        let u = UnverifiedBiscuit::from(&bytes).map_err(|e| v("unverified-rejects-own-token".into(), format!("{e:?}")))?;
        if r.revocation_identifiers() != ids || u.revocation_identifiers() != ids {
            return Err(v("ids-not-stable-under-reload".into(), format!("step {k}")));
        }
        let uv = u.verify(root_pub).map_err(|e| v("verify-rejects-own-token".into(), format!("{e:?}")))?;
        if uv.revocation_identifiers() != ids {
            return Err(v("ids-not-stable-under-verify".into(), format!("step {k}")));
        }
        // sealing keeps them
        let sealed = t.seal().map_err(|e| v("seal-error".into(), format!("{e:?}")))?;
        if sealed.revocation_identifiers() != ids {
            return Err(v("ids-not-stable-under-seal".into(), format!("step {k}")));
        }
        let sb = sealed.to_vec().map_err(|e| v("to_vec-error".into(), format!("{e:?}")))?;
        let sr = Biscuit::from(&sb, root_pub).map_err(|e| v("from-rejects-own-sealed-token".into(), format!("{e:?}")))?;
        if sr.revocation_identifiers() != ids {
            return Err(v("ids-not-stable-under-seal-reload".into(), format!("step {k}")));
        }
        // continuing from the reloaded token keeps the prefix
        if k < plan.steps.len() {
            if let Ok(nx) = apply_step(&r, plan, &plan.steps[k]) {
                let nids = nx.revocation_identifiers();
                if nids.len() != k + 2 || nids[..k + 1] != ids[..] {
                    return Err(v("ids-not-stable-append-after-reload".into(), format!("step {k}")));
                }
            }
        }
        prev = ids;
        rep.evals(1);
    }
    if fin.revocation_identifiers() != prev {
        return Err(v("ids-not-stable-final".into(), plan.shape()));
    }

    // --- uniqueness: twins minted independently through the OS-RNG entry points
    let twin_a = match guard(|| mint_os_rng(plan)) {
        Ok(Ok(x)) => x,
        Ok(Err(e)) => return Err(v("api-build-error".into(), format!("os-rng twin: {e:?}"))),
        Err(p) => return Err(v(format!("panic:{}", p.site()), p.message)),
    };
    let twin_b = match guard(|| mint_os_rng(plan)) {
        Ok(Ok(x)) => x,
        _ => return Err(v("api-build-error".into(), "os-rng twin b".into())),
    };
    let mut seen: HashSet<Vec<u8>> = HashSet::new();
    for (name, t) in [("seeded", toks.last().unwrap()), ("twin-a", twin_a.last().unwrap()), ("twin-b", twin_b.last().unwrap())] {
        for (i, id) in t.revocation_identifiers().into_iter().enumerate() {
            if !seen.insert(id) {
                return Err(v(
                    "ids-collide-between-independent-tokens".into(),
                    format!("{name} block {i} of shape {} repeats an identifier", plan.shape()),
                ));
            }
        }
    }
    rep.class("twins_checked");
    if plan.block_count() >= 2 {
        rep.nontrivial(hash64(plan));
    }
    rep.sample(json!({"shape": plan.shape(), "ids": prev.iter().map(hex::encode).collect::<Vec<_>>() }));

    // --- non-malleability over verifiable re-encodings
    let o = prepare(plan)?;
    let donor_w = o.wt.clone();
    let attacker = RSecret::from_keypair(&case.attacker.keypair());
    let mut tp = Tape::new(case.params.clone());
    let n = o.wt.block_count();
    let mut variants: Vec<(&str, usize, Vec<u8>)> = vec![];
    for kind in REENCODINGS {
        for i in 0..n {
            if let Some(b) = mutate_block(kind, &o.wt, &donor_w, i, &attacker, &mut tp) {
                variants.push((kind, i, b));
            }
        }
    }
    for kind in CONTAINER_REENCODINGS {
        if let Some(b) = mutate_container(kind, &o.wt, &donor_w, &attacker, &mut tp) {
            variants.push((kind, 0, b));
        }
    }
    for (kind, i, variant) in variants {
        rep.evals(1);
        let r = guard(|| Biscuit::from(&variant, o.root_pub));
        let u = guard(|| UnverifiedBiscuit::from(&variant).ok().and_then(|u| u.verify(o.root_pub).ok()));
        let accepted: Vec<Biscuit> = match (r, u) {
            (Ok(a), Ok(b)) => a.ok().into_iter().chain(b.into_iter()).collect(),
            (Err(p), _) | (_, Err(p)) => return Err(v(format!("panic:{}", p.site()), p.message)),
        };
        if accepted.is_empty() {
            rep.class(format!("reenc:{kind}:rejected"));
            continue;
        }
        rep.class(format!("reenc:{kind}:accepted"));
        rep.also_nontrivial(hash64(&(kind, i, n, plan.root.alg)));
        for a in accepted {
            if a.revocation_identifiers() != o.revocation {
                tol(
                    ctx,
                    Err(v(
                        // an identifier that a later signature has to cover is a different
                        // failure from the known one on the last block of an unsealed token
                        format!(
                            "malleable-id:{kind}{}",
                            if kind.starts_with("sig_") && vcore::refcrypto::signature_is_covered(&o.view, vcore::refcrypto::rkey_of(&o.root_pub).algorithm(), i) {
                                ":covered-signature"
                            } else {
                                ""
                            }
                        ),
                        format!(
                            "variant {kind} at block {i} of shape {} verifies and reports different revocation identifiers\nvariant {}\noriginal {}",
                            plan.shape(),
                            hex::encode(&variant),
                            hex::encode(&o.bytes)
                        ),
                    )),
                )?;
            }
        }
    }
    Ok(())
}

pub fn run(ctx: &Ctx, replay: Option<&serde_json::Value>) {
    if let Some(r) = replay {
        let case: Case = serde_json::from_value(r["case"].clone()).expect("bad replay case");
        ctx.run_list("ids", &[case], |c, r| test_case(ctx, c, r));
        return;
    }
    ctx.set_rule("TokenPlan histories (both algorithms for every signing key): identifiers compared after every build/append/third-party/seal/serialise/verify step and with the wire signatures read independently; two further twins minted through the OS-RNG entry points; every signature-level re-encoding of the catalogue applied at every block; non-trivial = history of >= 2 blocks, or an accepted re-encoding (distinct by kind, index, block count, root algorithm)");
    ctx.assume("uniqueness is probabilistic in the OS RNG; a collision report cannot be a false alarm, absence is not established");
    let cases = ctx.tier.pick(9000, 180_000);
    let cfg = GenCfg {
        max_facts: 2,
        max_rules: 1,
        max_checks: 1,
        ..GenCfg::default()
    };
    ctx.run_prop(
        "ids",
        cases,
        || {
            let cfg = cfg.clone();
            from_tape(1400, move |t| gen_case(t, &cfg, false))
        },
        |c, r| test_case(ctx, c, r),
    );
}
