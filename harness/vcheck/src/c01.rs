//! C01 - forged, tampered, spliced or truncated tokens never verify
use biscuit_auth::{Biscuit, PublicKey, UnverifiedBiscuit};
use serde::{Deserialize, Serialize};
use serde_json::json;
use vcore::gen::GenCfg;
use vcore::keys::{Alg, KeyPlan};
use vcore::mutate::*;
use vcore::refcrypto::*;
use vcore::runner::{Ctx, Report, Violation};
use vcore::tape::{from_tape, Tape};
use vcore::tokens::*;
use vcore::util::{guard, hash64};
use vcore::wire::{WBlock, WKey, WProof, WToken};

#[derive(Clone, Debug, Serialize, Deserialize)]
pub struct Case {
    pub plan: TokenPlan,
    pub donor: TokenPlan,
    pub attacker: KeyPlan,
    pub params: Vec<u16>,
}

fn v(sig: String, detail: String) -> Violation {
    Violation::new(sig, detail)
}

pub fn gen_case(t: &mut Tape, cfg: &GenCfg, sealed_only: bool) -> Case {
    let mut plan = gen_token_plan(t, cfg, 4);
    if sealed_only {
        plan.seal = true;
    }
    let mut donor = gen_token_plan_tagged(t, cfg, 3, 64);
    match t.pick(3) {
        0 => {}
        1 => {
            donor.root = plan.root;
        }
        _ => {
            // sibling attenuation: common prefix (same keys), then diverge
            let k = t.pick(plan.steps.len() + 1);
            let mut d = plan.clone();
            d.steps.truncate(k);
            d.steps.extend(donor.steps.iter().cloned());
            if d.steps.len() == plan.steps.len() && k == plan.steps.len() {
                // identical history: not a sibling, keep it as "same token" donor
            }
            d.seal = donor.seal;
            // scopes / ext indices refer to plan.keys, which d shares
            donor = d;
        }
    }
    let attacker = gen_key(t, 255);
    let params = (0..400).map(|_| t.raw()).collect();
    Case {
        plan,
        donor,
        attacker,
        params,
    }
}

pub struct Original {
    pub bytes: Vec<u8>,
    pub wt: WToken,
    pub view: TokenView,
    pub root_pub: PublicKey,
    pub revocation: Vec<Vec<u8>>,
    pub ext_keys: Vec<Option<PublicKey>>,
    pub sources: Vec<String>,
    /// views of every token legitimately issued in this case (history of the plan and of the donor)
    pub legit_views: Vec<TokenView>,
    /// C01 compares blocks and proof; C08 ("no block added, removed or altered") only the blocks
    pub compare_proof: bool,
}

/// check one variant on all entry points
pub fn check_variant(kind: &str, idx: usize, variant: &[u8], o: &Original, rep: &mut Report) -> Result<(), Violation> {
    let decoded = WToken::decode(variant).ok();
    let same_bytes = variant == &o.bytes[..];
    let allowed_view = decoded
        .as_ref()
        .and_then(|d| view_unverified(d).ok())
        .map(|vw| o.legit_views.contains(&vw))
        .unwrap_or(false);
    if same_bytes {
        rep.class(format!("mut:{kind}:noop"));
        return Ok(());
    }
    if decoded.is_some() && !allowed_view {
        rep.also_nontrivial(hash64(&(kind, idx, o.view.blocks.len(), &o.view.blocks[0].next_key_alg, o.view.blocks[0].version)));
    }
    rep.evals(1);
    let b64 = base64::encode_config(variant, base64::URL_SAFE);
    let results: Vec<(&str, Result<Result<Biscuit, String>, vcore::util::PanicInfo>)> = vec![
        ("from", guard(|| Biscuit::from(variant, o.root_pub).map_err(|e| format!("{e:?}")))),
        (
            "from_base64",
            guard(|| Biscuit::from_base64(&b64, o.root_pub).map_err(|e| format!("{e:?}"))),
        ),
        (
            "unverified.verify",
            guard(|| {
                UnverifiedBiscuit::from(variant)
                    .map_err(|e| format!("{e:?}"))
                    .and_then(|u| u.verify(o.root_pub).map_err(|e| format!("{e:?}")))
            }),
        ),
        // the deprecated readers relax the FORMAT of third-party signatures of version-0 blocks,
        // not the chain: no token of these cases is in the legacy format, so they must accept
        // exactly what the other entry points accept
        (
            "unsafe_deprecated_deserialize",
            guard(|| Biscuit::unsafe_deprecated_deserialize(variant, o.root_pub).map_err(|e| format!("{e:?}"))),
        ),
        (
            "unverified.unsafe_deprecated_deserialize.verify",
            guard(|| {
                UnverifiedBiscuit::unsafe_deprecated_deserialize(variant)
                    .map_err(|e| format!("{e:?}"))
                    .and_then(|u| u.verify(o.root_pub).map_err(|e| format!("{e:?}")))
            }),
        ),
    ];
    let mut accepted_any = false;
    for (entry, r) in results {
        match r {
            Err(p) => {
                return Err(v(
                    format!("panic:{}", p.site()),
                    format!("{entry} on variant {kind}@{idx}: {} at {}:{}", p.message, p.file, p.line),
                ))
            }
            Ok(Err(_)) => {}
            Ok(Ok(obj)) => {
                accepted_any = true;
                // what did the library accept? re-serialise and read with the independent reader
                let acc = obj.to_vec().map_err(|e| v("accepted-to_vec-error".into(), format!("{e:?}")))?;
                let accw = WToken::decode(&acc)
                    .map_err(|e| v(format!("accepted:{kind}"), format!("{entry}: accepted object does not re-decode: {e}")))?;
                let accv = view_unverified(&accw)
                    .map_err(|e| v(format!("accepted:{kind}"), format!("{entry}: accepted object has no view: {e}")))?;
                if !o.compare_proof && accv.blocks == o.view.blocks {
                    // same signed blocks, only the final proof was re-encoded
                    continue;
                }
                if accv != o.view && o.legit_views.contains(&accv) {
                    // the variant is (a re-encoding of) another legitimately issued token of the
                    // same history: the parent token, or a further attenuation made by the holder
                    continue;
                }
                if accv != o.view {
                    // a re-encoded signature that a later signature has to cover is a different
                    // failure from the same re-encoding on an uncovered (last, unsealed) one
                    let covered = kind.starts_with("sig_") && vcore::refcrypto::signature_is_covered(&o.view, rkey_of(&o.root_pub).algorithm(), idx);
                    return Err(v(
                        format!("accepted:{kind}{}", if covered { ":covered-signature" } else { "" }),
                        format!(
                            "{entry} accepted a variant ({kind} at block {idx}) whose signed blocks differ from the original\nvariant: {}\noriginal: {}",
                            hex::encode(variant),
                            hex::encode(&o.bytes)
                        ),
                    ));
                }
                // independent cross-check
                if let Err(e) = verify_wtoken(&accw, &rkey_of(&o.root_pub)) {
                    return Err(v(
                        format!("accepted-but-refcrypto-rejects:{kind}"),
                        format!("{entry}: {e}; variant {}", hex::encode(variant)),
                    ));
                }
                if obj.revocation_identifiers() != o.revocation {
                    return Err(v(format!("accepted-revocation-ids-differ:{kind}"), format!("{entry}")));
                }
                if obj.external_public_keys() != o.ext_keys {
                    return Err(v(format!("accepted-external-keys-differ:{kind}"), format!("{entry}")));
                }
                for (i, s) in o.sources.iter().enumerate() {
                    if obj.print_block_source(i).ok().as_ref() != Some(s) {
                        return Err(v(format!("accepted-block-source-differs:{kind}"), format!("{entry} block {i}")));
                    }
                }
            }
        }
    }
    rep.class(format!("mut:{kind}:{}", if accepted_any { "accepted_same_blocks" } else { "rejected" }));
    Ok(())
}

pub fn prepare(plan: &TokenPlan) -> Result<Original, Violation> {
    let (toks, fin) = match guard(|| build_history(plan)) {
        Ok(Ok(x)) => x,
        Ok(Err(e)) => return Err(v("api-build-error".into(), format!("{e:?}"))),
        Err(p) => return Err(v(format!("panic:{}", p.site()), p.message)),
    };
    let bytes = fin.to_vec().map_err(|e| v("to_vec-error".into(), format!("{e:?}")))?;
    let wt = WToken::decode(&bytes).map_err(|e| v("harness-decode".into(), e))?;
    let view = view_unverified(&wt).map_err(|e| v("harness-view".into(), e))?;
    let mut legit_views = vec![view.clone()];
    for t in &toks {
        if let Ok(b) = t.to_vec() {
            if let Ok(w) = WToken::decode(&b) {
                if let Ok(vw) = view_unverified(&w) {
                    legit_views.push(vw);
                }
            }
        }
    }
    let n = fin.block_count();
    Ok(Original {
        bytes,
        wt,
        view,
        root_pub: plan.root.public(),
        revocation: fin.revocation_identifiers(),
        ext_keys: fin.external_public_keys(),
        sources: (0..n).map(|i| fin.print_block_source(i).unwrap_or_default()).collect(),
        legit_views,
        compare_proof: true,
    })
}

/// known open findings are tolerated per variant so that the rest of the catalogue still runs
fn tol(ctx: &Ctx, r: Result<(), Violation>) -> Result<(), Violation> {
    match r {
        Err(v) if ctx.tolerate(&v) => Ok(()),
        other => other,
    }
}

pub fn test_case(ctx: &Ctx, case: &Case, rep: &mut Report) -> Result<(), Violation> {
    test_case_mode(ctx, case, rep, true)
}

pub fn test_case_mode(ctx: &Ctx, case: &Case, rep: &mut Report, compare_proof: bool) -> Result<(), Violation> {
    let plan = &case.plan;
    let mut o = prepare(plan)?;
    o.compare_proof = compare_proof;
    let (donor_hist, donor_tok) = match guard(|| build_history(&case.donor)) {
        Ok(Ok(x)) => x,
        _ => return Err(v("api-build-error".into(), "donor".into())),
    };
    for t in donor_hist.iter().chain(std::iter::once(&donor_tok)) {
        if let Some(vw) = t.to_vec().ok().and_then(|b| WToken::decode(&b).ok()).and_then(|w| view_unverified(&w).ok()) {
            o.legit_views.push(vw);
        }
    }
    let donor_w = WToken::decode(&donor_tok.to_vec().unwrap()).map_err(|e| v("harness-decode".into(), e))?;
    let attacker = RSecret::from_keypair(&case.attacker.keypair());
    let mut tp = Tape::new(case.params.clone());
    rep.class(format!("blocks={}", plan.block_count()));
    rep.class(format!("root={}", plan.root.alg.name()));
    if plan.seal {
        rep.class("sealed");
    }
    if plan.steps.iter().any(|s| s.is_third()) {
        rep.class("third_party");
    }
    for b in &o.view.blocks {
        rep.class(format!("sigversion={}", b.version));
    }
    rep.nontrivial(hash64(plan));
    rep.sample(json!({"shape": plan.shape(), "donor": case.donor.shape(), "token_hex": hex::encode(&o.bytes)}));

    // 1. foreign roots
    let other_alg = KeyPlan {
        alg: if plan.root.alg == Alg::Ed { Alg::P256 } else { Alg::Ed },
        seed: plan.root.seed,
    };
    let foreign = [
        ("attacker", case.attacker.public()),
        ("other-alg", other_alg.public()),
        ("first-next-key", plan.first_next.public()),
        ("donor-root", case.donor.root.public()),
    ];
    for (name, f) in foreign {
        if f == o.root_pub {
            continue;
        }
        rep.evals(1);
        let b64 = base64::encode_config(&o.bytes, base64::URL_SAFE);
        let r1 = guard(|| Biscuit::from(&o.bytes, f).is_ok());
        let r2 = guard(|| Biscuit::from_base64(&b64, f).is_ok());
        let r3 = guard(|| UnverifiedBiscuit::from(&o.bytes).and_then(|u| u.verify(f).map_err(Into::into)).is_ok());
        for (entry, r) in [("from", r1), ("from_base64", r2), ("unverified.verify", r3)] {
            match r {
                Ok(false) => {}
                Ok(true) => {
                    return Err(v(
                        format!("accepted-under-foreign-root:{name}"),
                        format!("{entry}: token of shape {} accepted under {name} root", plan.shape()),
                    ))
                }
                Err(p) => return Err(v(format!("panic:{}", p.site()), p.message)),
            }
        }
        rep.class("foreign_root_rejected");
    }
    // the right root through a key provider that ignores the hint must work (sanity: generator
    // soundness)
    if Biscuit::from(&o.bytes, o.root_pub).is_err() {
        return Err(v("from-rejects-own-token".into(), plan.shape()));
    }

    // 2. exhaustive over kind x position
    let n = o.wt.block_count();
    for kind in BLOCK_KINDS {
        for i in 0..n {
            if let Some(variant) = mutate_block(kind, &o.wt, &donor_w, i, &attacker, &mut tp) {
                tol(ctx, check_variant(kind, i, &variant, &o, rep))?;
            }
        }
    }
    for kind in CONTAINER_KINDS {
        let reps = if kind.starts_with("byte_") { 4 } else { 2 };
        for _ in 0..reps {
            if let Some(variant) = mutate_container(kind, &o.wt, &donor_w, &attacker, &mut tp) {
                tol(ctx, check_variant(kind, 0, &variant, &o, rep))?;
            }
        }
    }
    Ok(())
}

/// the eight points of small order of the ed25519 curve (canonical encodings): a key for which
/// signatures can be made without any secret
const SMALL_ORDER: &[&str] = &[
    "0100000000000000000000000000000000000000000000000000000000000000",
    "ecffffffffffffffffffffffffffffffffffffffffffffffffffffffffffff7f",
    "0000000000000000000000000000000000000000000000000000000000000000",
    "0000000000000000000000000000000000000000000000000000000000000080",
    "26e8958fc2b227b045c3f489f2ef98f0d5dfac05d3c63339b13802886d53fc05",
    "26e8958fc2b227b045c3f489f2ef98f0d5dfac05d3c63339b13802886d53fc85",
    "c7176a703d4dd84fba3c0b760d10670f2a2053fa2c39ccc64ec7fd7792ac037a",
    "c7176a703d4dd84fba3c0b760d10670f2a2053fa2c39ccc64ec7fd7792ac03fa",
];

/// (weak key index, R index, signature version, where the weak key sits: 0 = root, 1 = next key of
/// the authority block signing a second block)
type WeakCase = (usize, usize, u64, u8);

/// a token nobody signed: the signature (R, S = 0) verifies under a small-order key with a
/// cofactor-less or non-strict verification for suitable R
fn weak_key_case(case: &WeakCase, rep: &mut Report) -> Result<(), Violation> {
    let (a, r, version, place) = *case;
    let weak = hex::decode(SMALL_ORDER[a]).unwrap();
    let mut sig = hex::decode(SMALL_ORDER[r]).unwrap();
    sig.extend_from_slice(&[0u8; 32]);
    let payload = {
        use prost::Message;
        biscuit_auth::format::schema::Block {
            symbols: vec!["forged".into()],
            context: None,
            version: Some(3),
            facts_v2: vec![],
            rules_v2: vec![],
            checks_v2: vec![],
            scope: vec![],
            public_keys: vec![],
        }
        .encode_to_vec()
    };
    let honest_root = KeyPlan { alg: Alg::Ed, seed: 0xa11ce };
    let next = KeyPlan { alg: Alg::Ed, seed: 0xb0b };
    let (bytes, root_bytes) = if place == 0 {
        // authority block "signed" by the weak root
        let w = WToken {
            root_key_id: None,
            authority: WBlock {
                block: payload,
                next_key: vcore::refcrypto::rkey_of(&next.public()).to_wire(),
                signature: sig,
                external: None,
                version: if version == 0 { None } else { Some(version) },
            },
            blocks: vec![],
            proof: WProof::Secret(next.keypair().private().to_bytes().to_vec()),
        };
        (w.encode(), weak.clone())
    } else {
        // honest authority block whose next key is the weak key; second block "signed" by it
        let rs = |kp: &KeyPlan| RSecret::from_keypair(&kp.keypair());
        let mut signer = vcore::refcrypto::RefSigner::new(&rs(&honest_root), &rs(&next), &payload, version, None);
        let mut w = signer.token.clone();
        w.authority.next_key = WKey { algorithm: 0, key: weak.clone() };
        // re-sign the authority block over the weak next key with the honest root
        let weak_rkey = match RKey::parse(&w.authority.next_key) {
            Ok(k) => k,
            Err(_) => {
                rep.class("weak:next-key-not-a-point");
                return Ok(());
            }
        };
        w.authority.signature = rs(&honest_root).sign(&if version == 0 { vcore::refcrypto::payload_v0(&payload, &weak_rkey, None) } else { vcore::refcrypto::payload_v1(&payload, &weak_rkey, None, None, version) });
        w.blocks.push(WBlock {
            block: payload.clone(),
            next_key: vcore::refcrypto::rkey_of(&next.public()).to_wire(),
            signature: sig,
            external: None,
            version: if version == 0 { None } else { Some(version) },
        });
        w.proof = WProof::Secret(next.keypair().private().to_bytes().to_vec());
        let _ = &mut signer;
        (w.encode(), honest_root.public().to_bytes())
    };
    rep.evals(1);
    rep.nontrivial(hash64(case));
    let root = match guard(|| PublicKey::from_bytes(&root_bytes, biscuit_auth::builder::Algorithm::Ed25519)) {
        Ok(Ok(k)) => k,
        Ok(Err(_)) => {
            rep.class("weak:root-key-refused");
            return Ok(());
        }
        Err(p) => return Err(v(format!("panic:{}", p.site()), p.message)),
    };
    let r1 = guard(|| Biscuit::from(&bytes, root).is_ok());
    let r2 = guard(|| UnverifiedBiscuit::from(&bytes).ok().map(|u| u.verify(root).is_ok()).unwrap_or(false));
    for (entry, res) in [("from", r1), ("unverified.verify", r2)] {
        match res {
            Ok(false) => rep.class("weak:forgery-rejected"),
            Ok(true) => {
                return Err(v(
                    "accepted-forgery-under-small-order-key".into(),
                    format!(
                        "{entry} accepted a token nobody signed: {} key {} (small order), signature R = {}, S = 0, version {version}\ntoken {}",
                        if place == 0 { "root" } else { "next" },
                        SMALL_ORDER[a],
                        SMALL_ORDER[r],
                        hex::encode(&bytes)
                    ),
                ))
            }
            Err(p) => return Err(v(format!("panic:{}", p.site()), p.message)),
        }
    }
    Ok(())
}

pub fn run(ctx: &Ctx, replay: Option<&serde_json::Value>) {
    if let Some(r) = replay {
        if r["sub"].as_str() == Some("weak-keys") {
            let case: WeakCase = serde_json::from_value(r["case"].clone()).expect("bad replay case");
            ctx.run_list("weak-keys", &[case], |c, r| weak_key_case(c, r));
            return;
        }
        let case: Case = serde_json::from_value(r["case"].clone()).expect("bad replay case");
        ctx.run_list("mutations", &[case], |c, r| test_case(ctx, c, r));
        return;
    }
    // forgeries that need no secret: small-order ed25519 keys as root or as next key
    let mut weak = vec![];
    for a in 0..SMALL_ORDER.len() {
        for r in 0..SMALL_ORDER.len() {
            for version in [0u64, 1] {
                for place in [0u8, 1] {
                    weak.push((a, r, version, place));
                }
            }
        }
    }
    ctx.run_list("weak-keys", &weak, |c, r| weak_key_case(c, r));
    ctx.set_rule("TokenPlan x donor token (independent / same root / sibling attenuation) x every WireMutator kind at every block index + container and byte-level kinds + 4 foreign roots; oracle: an accepted variant must carry exactly the original's signed blocks (or be an earlier legitimate token); non-trivial variant = decodes as protobuf, differs from the original and is not an allowed re-encoding; distinct = (kind, index, block count, algorithm, version)");
    ctx.assume("ed25519-dalek / p256 primitives trusted; forgeries that require breaking them are out of reach");
    ctx.assume("v0 blocks do not bind the previous signature by design; only the statement's 'no accepted variant with different signed blocks' is demanded");
    let cases = ctx.tier.pick(4000, 80000);
    let cfg = GenCfg {
        max_facts: 2,
        max_rules: 1,
        max_checks: 1,
        ..GenCfg::default()
    };
    ctx.run_prop(
        "mutations",
        cases,
        || {
            let cfg = cfg.clone();
            from_tape(1600, move |t| gen_case(t, &cfg, false))
        },
        |c, r| test_case(ctx, c, r),
    );
}
