//! C14 - printed Datalog parses back to the same program
use biscuit_auth::builder as b;
use serde::{Deserialize, Serialize};
use serde_json::json;
use std::collections::BTreeSet;
use std::convert::TryFrom;
use vcore::ast::*;
use vcore::gen::*;
use vcore::keys::KeyPlan;
use vcore::runner::{Ctx, Report, Violation};
use vcore::tape::{from_tape, Tape};
use vcore::tokens::*;
use vcore::util::{guard, hash64};

#[derive(Clone, Debug, Serialize, Deserialize, Hash)]
pub enum Item {
    Fact(Pred),
    Rule(Rule),
    Check(Check),
    Policy(Policy),
}

#[derive(Clone, Debug, Serialize, Deserialize, Hash)]
pub struct ItemCase {
    pub keys: Vec<KeyPlan>,
    pub item: Item,
}

#[derive(Clone, Debug, Serialize, Deserialize, Hash)]
pub struct BlockCase {
    pub plan: TokenPlan,
    pub authorizer: AuthorizerAst,
}

fn v(sig: String, detail: String) -> Violation {
    Violation::new(sig, detail)
}

pub fn text_cfg() -> GenCfg {
    GenCfg {
        typed: false,
        grammar_normal: true,
        strict_bool_ops: false,
        wild_strings: true,
        off_arity: true,
        n_keys: 3,
        ..GenCfg::default()
    }
}

/// remove what the grammar cannot express from an untyped tree's ops: strict And/Or
fn grammar_ok_ops(ops: &[Op]) -> bool {
    ops.iter().all(|o| match o {
        Op::Binary(Bin::And) | Op::Binary(Bin::Or) => false,
        Op::Closure(_, body) => grammar_ok_ops(body),
        _ => true,
    })
}

fn rule_grammar_ok(r: &Rule) -> bool {
    r.exprs.iter().all(|e| grammar_ok_ops(&e.ops))
}

pub fn gen_item(t: &mut Tape, cfg: &GenCfg) -> ItemCase {
    let keys = gen_keys(t, cfg.n_keys);
    let mut cfg = cfg.clone();
    cfg.typed = t.chance(1, 2);
    let item = match t.pick(4) {
        0 => Item::Fact(gen_fact(t, &cfg)),
        1 => Item::Rule(gen_rule(t, &cfg)),
        2 => Item::Check(gen_check(t, &cfg)),
        _ => Item::Policy(gen_policy(t, &cfg)),
    };
    ItemCase { keys, item }
}

fn special_string(item: &Item) -> bool {
    let mut strs = vec![];
    let mut visit_rule = |r: &Rule, strs: &mut Vec<String>| {
        for p in std::iter::once(&r.head).chain(r.body.iter()) {
            for t in &p.terms {
                t.strings(strs);
            }
        }
        fn ops(o: &[Op], strs: &mut Vec<String>) {
            for x in o {
                match x {
                    Op::Value(t) => t.strings(strs),
                    Op::Closure(_, b) => ops(b, strs),
                    _ => {}
                }
            }
        }
        for e in &r.exprs {
            ops(&e.ops, strs);
        }
    };
    match item {
        Item::Fact(p) => p.terms.iter().for_each(|t| t.strings(&mut strs)),
        Item::Rule(r) => visit_rule(r, &mut strs),
        Item::Check(c) => c.queries.iter().for_each(|q| visit_rule(q, &mut strs)),
        Item::Policy(c) => c.queries.iter().for_each(|q| visit_rule(q, &mut strs)),
    }
    strs.iter().any(|s| s.contains('"') || s.contains('\\') || s.contains('\n'))
}

fn classify_text_failure(printed: &str, item: &Item) -> &'static str {
    if special_string(item) {
        "string-escaping"
    } else if printed.contains("hex:)") || printed.contains("hex:,") || printed.contains("hex: ") || printed.contains("hex:]") || printed.contains("hex:}") || printed.ends_with("hex:") {
        "empty-bytes-literal"
    } else {
        "other"
    }
}

pub fn test_item(ctx: &Ctx, case: &ItemCase, rep: &mut Report) -> Result<(), Violation> {
    let pubs = vcore::keys::publics(&case.keys);
    let (kind, printed, reparsed): (&str, String, Result<Item, String>) = match &case.item {
        Item::Fact(p) => {
            let s = match guard(|| p.to_fact().to_string()) {
                Ok(s) => s,
                Err(pn) => return Err(v(format!("panic:{}", pn.site()), format!("Display of fact: {}", pn.message))),
            };
            let r = guard(|| b::Fact::try_from(s.as_str()));
            (
                "fact",
                s,
                match r {
                    Ok(Ok(f)) => Ok(Item::Fact(Pred::from_b(&f.predicate))),
                    Ok(Err(e)) => Err(format!("{e:?}")),
                    Err(pn) => Err(format!("PANIC {}", pn.message)),
                },
            )
        }
        Item::Rule(r0) => {
            if !rule_grammar_ok(r0) {
                return Ok(());
            }
            let s = match guard(|| r0.to_b(&pubs).to_string()) {
                Ok(s) => s,
                Err(pn) => return Err(v(format!("panic:{}", pn.site()), format!("Display of rule: {}", pn.message))),
            };
            let r = guard(|| b::Rule::try_from(s.as_str()));
            (
                "rule",
                s,
                match r {
                    Ok(Ok(f)) => Ok(Item::Rule(Rule::from_b(&f, &pubs))),
                    Ok(Err(e)) => Err(format!("{e:?}")),
                    Err(pn) => Err(format!("PANIC {}", pn.message)),
                },
            )
        }
        Item::Check(c0) => {
            if !c0.queries.iter().all(rule_grammar_ok) {
                return Ok(());
            }
            let s = match guard(|| c0.to_b(&pubs).to_string()) {
                Ok(s) => s,
                Err(pn) => return Err(v(format!("panic:{}", pn.site()), format!("Display of check: {}", pn.message))),
            };
            let r = guard(|| b::Check::try_from(s.as_str()));
            (
                "check",
                s,
                match r {
                    Ok(Ok(f)) => Ok(Item::Check(Check::from_b(&f, &pubs))),
                    Ok(Err(e)) => Err(format!("{e:?}")),
                    Err(pn) => Err(format!("PANIC {}", pn.message)),
                },
            )
        }
        Item::Policy(c0) => {
            if !c0.queries.iter().all(rule_grammar_ok) {
                return Ok(());
            }
            let s = match guard(|| c0.to_b(&pubs).to_string()) {
                Ok(s) => s,
                Err(pn) => return Err(v(format!("panic:{}", pn.site()), format!("Display of policy: {}", pn.message))),
            };
            let r = guard(|| b::Policy::try_from(s.as_str()));
            (
                "policy",
                s,
                match r {
                    Ok(Ok(f)) => Ok(Item::Policy(Policy::from_b(&f, &pubs))),
                    Ok(Err(e)) => Err(format!("{e:?}")),
                    Err(pn) => Err(format!("PANIC {}", pn.message)),
                },
            )
        }
    };
    rep.class(format!("item:{kind}"));
    let special = special_string(&case.item);
    let deep = match &case.item {
        Item::Fact(p) => p.terms.iter().any(|t| t.depth() >= 2),
        Item::Rule(r) => r.exprs.iter().any(|e| e.ops.len() >= 5) || !r.scopes.is_empty(),
        Item::Check(c) => c.queries.iter().any(|r| r.exprs.iter().any(|e| e.ops.len() >= 5) || !r.scopes.is_empty()),
        Item::Policy(c) => c.queries.iter().any(|r| r.exprs.iter().any(|e| e.ops.len() >= 5) || !r.scopes.is_empty()),
    };
    if special || deep {
        rep.nontrivial(hash64(&case.item));
    }
    if special {
        rep.class("string_with_quote_backslash_or_newline");
    }
    rep.sample(json!({"kind": kind, "printed": printed}));
    let h = |a: &Item| format!("{:?}", a);
    match reparsed {
        Ok(r) => {
            if h(&r) != h(&case.item) {
                let vio = v(
                    format!("reparse-differs:{kind}:{}", classify_text_failure(&printed, &case.item)),
                    format!("printed: {printed}\noriginal: {:?}\nreparsed: {:?}", case.item, r),
                );
                if !ctx.tolerate(&vio) {
                    return Err(vio);
                }
            }
        }
        Err(e) => {
            let vio = v(
                format!("printed-does-not-parse:{kind}:{}", classify_text_failure(&printed, &case.item)),
                format!("printed: {printed}\nerror: {e}\noriginal: {:?}", case.item),
            );
            if !ctx.tolerate(&vio) {
                return Err(vio);
            }
        }
    }
    Ok(())
}

/// ops the grammar cannot produce but that exist on the wire (tokens of older emitters)
pub fn test_legacy_ops(ctx: &Ctx, rep: &mut Report) -> Result<(), Violation> {
    let keys: Vec<biscuit_auth::PublicKey> = vec![];
    for (name, op) in [("strict-and", Bin::And), ("strict-or", Bin::Or)] {
        for (l, r) in [(true, true), (true, false), (false, true), (false, false)] {
            rep.evals(1);
            let e = Expr {
                ops: vec![Op::Value(Term::Bool(l)), Op::Value(Term::Bool(r)), Op::Binary(op.clone())],
            };
            let c = Check {
                kind: CheckKind::One,
                queries: vec![Rule::query(vec![], vec![e.clone()], vec![])],
            };
            let printed = c.to_b(&keys).to_string();
            let ok = match b::Check::try_from(printed.as_str()) {
                Ok(c2) => {
                    let c2 = Check::from_b(&c2, &keys);
                    // same truth value at least, same ops ideally
                    let v1 = vcore::refeval::eval(&e, &Default::default(), &vcore::refeval::no_externs);
                    let v2 = vcore::refeval::eval(&c2.queries[0].exprs[0], &Default::default(), &vcore::refeval::no_externs);
                    c2.queries[0].exprs[0] == e || v1 == v2 && false
                }
                Err(_) => false,
            };
            if !ok {
                let vio = v(
                    format!("legacy-op-does-not-round-trip:{name}"),
                    format!("`{printed}` does not parse back to the operation sequence {:?}", e.ops),
                );
                if !ctx.tolerate(&vio) {
                    return Err(vio);
                }
            }
        }
    }
    Ok(())
}

pub fn gen_block_case(t: &mut Tape, cfg: &GenCfg) -> BlockCase {
    let mut cfg = cfg.clone();
    cfg.typed = true;
    let mut plan = gen_token_plan(t, &cfg, 2);
    plan.seal = false;
    let authorizer = gen_authorizer(t, &cfg);
    BlockCase { plan, authorizer }
}

fn norm_block(b: &Block) -> Block {
    Block {
        context: None,
        ..b.clone()
    }
}

pub fn test_block(ctx: &Ctx, case: &BlockCase, rep: &mut Report) -> Result<(), Violation> {
    let plan = &case.plan;
    let pubs = plan.publics();
    let token = match guard(|| build_token(plan)) {
        Ok(Ok(t)) => t,
        Ok(Err(e)) => return Err(v("api-build-error".into(), format!("{e:?}"))),
        Err(p) => return Err(v(format!("panic:{}", p.site()), p.message)),
    };
    let token = biscuit_auth::Biscuit::from(token.to_vec().unwrap(), plan.root.public()).map_err(|e| v("from-rejects-own-token".into(), format!("{e:?}")))?;
    rep.nontrivial(hash64(case));
    for i in 0..plan.block_count() {
        rep.evals(1);
        let src = match guard(|| token.print_block_source(i)) {
            Ok(Ok(s)) => s,
            Ok(Err(e)) => return Err(v("print_block_source-error".into(), format!("{e:?}"))),
            Err(p) => return Err(v(format!("panic:{}", p.site()), p.message)),
        };
        if i == 0 {
            rep.sample(json!({"block_source": src}));
        }
        let original = norm_block(plan.block(i));
        let has_special = {
            let mut s = vec![];
            for f in &original.facts {
                f.terms.iter().for_each(|t| t.strings(&mut s));
            }
            s.iter().any(|x| x.contains('"') || x.contains('\\') || x.contains('\n'))
        };
        let class = if has_special {
            "string-escaping"
        } else if src.contains("hex:)") || src.contains("hex:,") || src.contains("hex: ") || src.contains("hex:]") || src.contains("hex:}") {
            "empty-bytes-literal"
        } else if !original.scopes.is_empty() {
            "block-scope-not-printed"
        } else {
            "other"
        };
        let parsed = guard(|| b::BlockBuilder::new().code(&src));
        match parsed {
            Ok(Ok(bb)) => {
                let back = norm_block(&Block::from_builder(&bb, &pubs));
                let same_items = back.facts == original.facts && back.rules == original.rules && back.checks == original.checks;
                if same_items && back.scopes != original.scopes {
                    let vio = v(
                        "block-scope-not-printed".to_string(),
                        format!("block {i} has block-level scope {:?}; print_block_source gives:\n{src}", original.scopes),
                    );
                    if !ctx.tolerate(&vio) {
                        return Err(vio);
                    }
                } else if back != original {
                    let class = if class == "block-scope-not-printed" { "other" } else { class };
                    let vio = v(
                        format!("block-source-reparse-differs:{class}"),
                        format!("block {i} printed:\n{src}\noriginal {:?}\nreparsed {:?}", original, back),
                    );
                    if !ctx.tolerate(&vio) {
                        return Err(vio);
                    }
                }
            }
            Ok(Err(e)) => {
                let vio = v(
                    format!("block-source-does-not-parse:{class}"),
                    format!("block {i} printed:\n{src}\nerror {e:?}"),
                );
                if !ctx.tolerate(&vio) {
                    return Err(vio);
                }
            }
            Err(p) => return Err(v(format!("panic:{}", p.site()), format!("parsing printed block source: {}\n{src}", p.message))),
        }
    }
    // authorizer dump -> code -> same authorizer
    let ab = case.authorizer.to_builder(&pubs).map_err(|e| v("authorizer-builder-error".into(), format!("{e:?}")))?;
    let dump = match guard(|| ab.dump_code()) {
        Ok(d) => d,
        Err(p) => return Err(v(format!("panic:{}", p.site()), p.message)),
    };
    let class = if dump.contains('\\') || dump.matches('"').count() % 2 == 1 {
        "string-escaping"
    } else if dump.contains("hex:)") || dump.contains("hex:,") || dump.contains("hex: ") || dump.contains("hex:]") || dump.contains("hex:}") {
        "empty-bytes-literal"
    } else if !case.authorizer.block.scopes.is_empty() {
        "authorizer-scope-not-dumped"
    } else {
        "other"
    };
    // the authorizer-level scope survives the dump when the builder parsed back from it carries
    // the same scope (read from the builders' snapshots)
    let scope_survives = {
        use prost::Message;
        let scopes_of = |x: &b::AuthorizerBuilder| {
            x.to_raw_snapshot()
                .ok()
                .and_then(|s| biscuit_auth::format::schema::AuthorizerSnapshot::decode(&s[..]).ok())
                .map(|s| s.world.authorizer_block.scope.len())
        };
        match guard(|| b::AuthorizerBuilder::new().code(&dump).ok().and_then(|ab2| scopes_of(&ab2))) {
            Ok(Some(n)) => Some(n) == scopes_of(&ab) && n > 0,
            _ => false,
        }
    };
    if !case.authorizer.block.scopes.is_empty() && !scope_survives {
        let vio = v(
            "authorizer-scope-not-dumped".to_string(),
            format!("authorizer scope {:?} does not appear in dump_code():\n{dump}", case.authorizer.block.scopes),
        );
        if !ctx.tolerate(&vio) {
            return Err(vio);
        }
    }
    match guard(|| b::AuthorizerBuilder::new().code(&dump)) {
        Ok(Ok(ab2)) => {
            let dump2 = ab2.dump_code();
            let a1 = ab.build_unauthenticated();
            let a2 = ab2.build_unauthenticated();
            let same = match (a1, a2) {
                (Ok(a1), Ok(a2)) => {
                    let (f1, r1, c1, p1) = a1.dump();
                    let (f2, r2, c2, p2) = a2.dump();
                    let facts = |f: &Vec<b::Fact>| f.iter().map(|x| Pred::from_b(&x.predicate)).collect::<BTreeSet<_>>();
                    let rules = |r: &Vec<b::Rule>| r.iter().map(|x| Rule::from_b(x, &pubs)).collect::<BTreeSet<_>>();
                    facts(&f1) == facts(&f2)
                        && rules(&r1) == rules(&r2)
                        && c1.iter().map(|x| Check::from_b(x, &pubs)).collect::<Vec<_>>() == c2.iter().map(|x| Check::from_b(x, &pubs)).collect::<Vec<_>>()
                        && p1.iter().map(|x| Policy::from_b(x, &pubs)).collect::<Vec<_>>() == p2.iter().map(|x| Policy::from_b(x, &pubs)).collect::<Vec<_>>()
                }
                _ => true,
            };
            if dump2 != dump || !same {
                let vio = v(
                    format!("authorizer-dump-reparse-differs:{class}"),
                    format!("dump:\n{dump}\nafter reparse:\n{dump2}"),
                );
                if !ctx.tolerate(&vio) {
                    return Err(vio);
                }
            }
        }
        Ok(Err(e)) => {
            let vio = v(format!("authorizer-dump-does-not-parse:{class}"), format!("dump:\n{dump}\nerror {e:?}"));
            if !ctx.tolerate(&vio) {
                return Err(vio);
            }
        }
        Err(p) => return Err(v(format!("panic:{}", p.site()), format!("parsing dump: {}\n{dump}", p.message))),
    }
    Ok(())
}

pub fn run(ctx: &Ctx, replay: Option<&serde_json::Value>) {
    if let Some(r) = replay {
        match r["sub"].as_str() {
            Some("blocks") => {
                let case: BlockCase = serde_json::from_value(r["case"].clone()).expect("bad replay case");
                ctx.run_list("blocks", &[case], |c, r| test_block(ctx, c, r));
            }
            Some("legacy") => {
                ctx.run_list("legacy", &[0u8], |_, r| test_legacy_ops(ctx, r));
            }
            _ => {
                let case: ItemCase = serde_json::from_value(r["case"].clone()).expect("bad replay case");
                ctx.run_list("items", &[case], |c, r| test_item(ctx, c, r));
            }
        }
        return;
    }
    ctx.set_rule("(a) items (fact, rule, check, policy) derived from the grammar: every term type, nested collections, every operator and method, closures, explicit Parens exactly where the grammar needs them, scopes with both key algorithms, strings over all of Unicode biased to quote / backslash / newline / Datalog fragments; Display -> FromStr must give the same AST; (b) strict And/Or (on the wire, not in the grammar); (c) blocks: token -> print_block_source -> BlockBuilder::code, authorizers: dump_code -> AuthorizerBuilder::code; non-trivial = a string with quote, backslash or newline, or an expression of >=5 ops, or a scope, or a nested term; distinct = hash(item)");
    ctx.run_list("legacy", &[0u8], |_, r| test_legacy_ops(ctx, r));
    let cfg = text_cfg();
    let items = ctx.tier.pick(400_000, 5_000_000);
    ctx.run_prop(
        "items",
        items,
        || {
            let cfg = cfg.clone();
            from_tape(400, move |t| gen_item(t, &cfg))
        },
        |c, r| test_item(ctx, c, r),
    );
    let blocks = ctx.tier.pick(40_000, 400_000);
    let bcfg = GenCfg {
        max_facts: 3,
        max_rules: 2,
        max_checks: 2,
        ..text_cfg()
    };
    ctx.run_prop(
        "blocks",
        blocks,
        || {
            let cfg = bcfg.clone();
            from_tape(1200, move |t| gen_block_case(t, &cfg))
        },
        |c, r| test_block(ctx, c, r),
    );
}
