//! C02 - every token the API builds verifies and round-trips byte-exactly
use biscuit_auth::{Biscuit, UnverifiedBiscuit};
use serde_json::json;
use vcore::gen::GenCfg;
use vcore::refcrypto::*;
use vcore::runner::{Ctx, Report, Violation};
use vcore::tape::from_tape;
use vcore::tokens::*;
use vcore::util::hash64;

fn v(sig: &str, detail: String) -> Violation {
    Violation::new(sig, detail)
}

/// datalog version declared inside a block payload (field 3 of schema::Block), read with the
/// independent wire reader
pub fn declared_datalog_version(payload: &[u8]) -> Option<u64> {
    let fields = vcore::wire::parse_fields(payload).ok()?;
    let mut ver = None;
    for f in fields {
        if let vcore::wire::Field::Varint(3, x) = f {
            ver = Some(x);
        }
    }
    ver
}

pub fn check_token_roundtrip(
    plan: &TokenPlan,
    k: usize,
    tok: &Biscuit,
    sealed: bool,
) -> Result<(), Violation> {
    let root_pub = plan.root.public();
    let bytes = tok.to_vec().map_err(|e| v("to_vec-error", format!("{e:?}")))?;
    let b64 = tok.to_base64().map_err(|e| v("to_base64-error", format!("{e:?}")))?;

    let r1 = Biscuit::from(&bytes, root_pub).map_err(|e| v("from-rejects-own-token", format!("step {k}: {e:?}")))?;
    let r2 = Biscuit::from_base64(&b64, root_pub)
        .map_err(|e| v("from_base64-rejects-own-token", format!("step {k}: {e:?}")))?;
    let u = UnverifiedBiscuit::from(&bytes).map_err(|e| v("unverified-from-rejects-own-token", format!("step {k}: {e:?}")))?;
    let ub64 = UnverifiedBiscuit::from_base64(&b64)
        .map_err(|e| v("unverified-from_base64-rejects-own-token", format!("step {k}: {e:?}")))?;
    // unverified accessors before verification
    if u.block_count() != tok.block_count() || u.revocation_identifiers() != tok.revocation_identifiers()
        || u.external_public_keys() != tok.external_public_keys() || u.root_key_id() != tok.root_key_id()
    {
        return Err(v("unverified-view-differs", format!("step {k}")));
    }
    if ub64.to_vec().ok() != Some(bytes.clone()) {
        return Err(v("unverified-base64-bytes-differ", format!("step {k}")));
    }
    let r3 = u
        .verify(root_pub)
        .map_err(|e| v("unverified-verify-rejects-own-token", format!("step {k}: {e:?}")))?;

    let n = k + 1;
    let expected_ctx: Vec<Option<String>> = (0..n).map(|i| plan.block(i).context.clone()).collect();
    let expected_ext: Vec<Option<biscuit_auth::PublicKey>> = (0..n)
        .map(|i| plan.ext_of(i).map(|e| plan.keys[e % plan.keys.len()].public()))
        .collect();
    for (name, r) in [("from", &r1), ("from_base64", &r2), ("unverified.verify", &r3), ("memory", tok)] {
        if r.block_count() != n {
            return Err(v("block-count-differs", format!("{name} step {k}: {} != {n}", r.block_count())));
        }
        if r.context() != expected_ctx {
            return Err(v("context-differs", format!("{name} step {k}: {:?} != {:?}", r.context(), expected_ctx)));
        }
        if r.external_public_keys() != expected_ext {
            return Err(v("external-keys-differ", format!("{name} step {k}")));
        }
        if r.root_key_id() != plan.root_key_id {
            return Err(v("root-key-id-differs", format!("{name} step {k}: {:?}", r.root_key_id())));
        }
        if r.revocation_identifiers() != tok.revocation_identifiers() {
            return Err(v("revocation-ids-differ", format!("{name} step {k}")));
        }
        for i in 0..n {
            let a = vcore::util::guard(|| r.print_block_source(i));
            let b = vcore::util::guard(|| tok.print_block_source(i));
            match (a, b) {
                (Ok(Ok(a)), Ok(Ok(b))) => {
                    if a != b {
                        return Err(v(
                            "block-source-differs",
                            format!("{name} step {k} block {i}:\n{a}\n--- vs in-memory ---\n{b}"),
                        ));
                    }
                }
                (a, b) => {
                    return Err(v(
                        "block-source-error",
                        format!("{name} step {k} block {i}: reloaded {:?} memory {:?}", a, b),
                    ))
                }
            }
            if r.block_external_key(i).ok() != Some(expected_ext[i]) {
                return Err(v("block-external-key-differs", format!("{name} step {k} block {i}")));
            }
        }
        let again = r.to_vec().map_err(|e| v("to_vec-error", format!("{e:?}")))?;
        if again != bytes {
            return Err(v(
                "reserialization-not-byte-identical",
                format!("{name} step {k}: {} vs {}", hex::encode(&again), hex::encode(&bytes)),
            ));
        }
        if r.to_base64().ok().as_deref() != Some(b64.as_str()) {
            return Err(v("base64-reserialization-differs", format!("{name} step {k}")));
        }
        if base64::decode_config(&b64, base64::URL_SAFE).ok() != Some(bytes.clone()) {
            return Err(v("base64-is-not-urlsafe-of-bytes", format!("{name} step {k}")));
        }
        if r.serialized_size().ok() != Some(bytes.len()) {
            return Err(v("serialized-size-differs", format!("{name} step {k}")));
        }
    }

    // independent verification of every signature with the specification's payload layout
    let root = RKey::parse(&vcore::wire::WKey {
        algorithm: match plan.root.alg {
            vcore::keys::Alg::Ed => ALG_ED25519,
            vcore::keys::Alg::P256 => ALG_P256,
        },
        key: root_pub.to_bytes(),
    })
    .map_err(|e| v("harness-root-key", e))?;
    let ver = verify_token(&bytes, &root).map_err(|e| {
        v(
            "refcrypto-rejects-library-token",
            format!("step {k} shape {}: {e}\n{}", plan.shape(), hex::encode(&bytes)),
        )
    })?;
    if ver.view.blocks.len() != n {
        return Err(v("refcrypto-block-count", format!("step {k}")));
    }
    let sigs: Vec<Vec<u8>> = ver.view.blocks.iter().map(|b| b.signature.clone()).collect();
    if sigs != tok.revocation_identifiers() {
        return Err(v("revocation-ids-are-not-wire-signatures", format!("step {k}")));
    }
    match (&ver.view.proof, sealed) {
        (ProofView::Seal(_), true) | (ProofView::Secret(_), false) => {}
        _ => return Err(v("proof-kind-wrong", format!("step {k} sealed={sealed}"))),
    }
    // declared signature versions follow the rule
    let mut prev_versions = vec![];
    let mut signing_alg = root.algorithm();
    for (i, b) in ver.view.blocks.iter().enumerate() {
        let exp = expected_signature_version(
            signing_alg,
            b.next_key_alg,
            b.external.is_some(),
            declared_datalog_version(&b.payload),
            &prev_versions,
        );
        if b.version != exp {
            return Err(v(
                "signature-version-rule",
                format!(
                    "step {k} block {i}: wire version {} expected {} (shape {}, datalog {:?})",
                    b.version,
                    exp,
                    plan.shape(),
                    declared_datalog_version(&b.payload)
                ),
            ));
        }
        prev_versions.push(b.version);
        signing_alg = b.next_key_alg;
    }

    // other direction: RefSigner over the same payloads and keys must produce the same bytes
    // (ed25519 and RFC 6979 ECDSA are deterministic) and the library must accept them
    let rsec = |kp: &vcore::keys::KeyPlan| RSecret::from_keypair(&kp.keypair());
    let mut signer = RefSigner::new(
        &rsec(&plan.root),
        &rsec(&plan.first_next),
        &ver.view.blocks[0].payload,
        ver.view.blocks[0].version,
        plan.root_key_id.map(|x| x as u64),
    );
    for i in 1..n {
        let st = &plan.steps[i - 1];
        let ext = match st {
            Step::Third { ext, .. } => Some(rsec(&plan.keys[*ext % plan.keys.len()])),
            _ => None,
        };
        signer.append(&rsec(st.next()), &ver.view.blocks[i].payload, ver.view.blocks[i].version, ext.as_ref());
    }
    if sealed {
        signer.seal();
    }
    let ref_bytes = signer.bytes();
    if ref_bytes != bytes {
        return Err(v(
            "refsigner-bytes-differ",
            format!(
                "step {k} shape {}: library {} reference {}",
                plan.shape(),
                hex::encode(&bytes),
                hex::encode(&ref_bytes)
            ),
        ));
    }
    Biscuit::from(&ref_bytes, root_pub).map_err(|e| v("library-rejects-refsigner-token", format!("step {k}: {e:?}")))?;
    Ok(())
}

pub fn test_plan(plan: &TokenPlan, rep: &mut Report) -> Result<(), Violation> {
    rep.class(format!("blocks={}", plan.block_count()));
    rep.class(format!("root={}", plan.root.alg.name()));
    if plan.seal {
        rep.class("sealed");
    }
    if plan.steps.iter().any(|s| s.is_third()) {
        rep.class("third_party");
    }
    if plan.root_key_id.is_some() {
        rep.class("root_key_id");
    }
    let any_p256 = plan.root.alg == vcore::keys::Alg::P256
        || plan.first_next.alg == vcore::keys::Alg::P256
        || plan.steps.iter().any(|s| s.next().alg == vcore::keys::Alg::P256);
    if any_p256 {
        rep.class("p256_in_chain");
    }
    let (toks, fin) = match vcore::util::guard(|| build_history(plan)) {
        Ok(Ok(x)) => x,
        Ok(Err(e)) => {
            rep.class("build_error");
            return Err(v("api-build-error", format!("{e:?} for shape {}", plan.shape())));
        }
        Err(p) => return Err(v(&format!("panic:{}", p.site()), format!("build: {}", p.message))),
    };
    if plan.block_count() >= 2 || any_p256 || plan.seal {
        rep.nontrivial(hash64(plan));
    }
    rep.sample(json!({"shape": plan.shape(), "blocks": (0..plan.block_count()).map(|i| fin.print_block_source(i).unwrap_or_default()).collect::<Vec<_>>() }));
    for (k, tok) in toks.iter().enumerate() {
        rep.evals(1);
        let r = vcore::util::guard(|| check_token_roundtrip(plan, k, tok, false));
        match r {
            Ok(r) => r?,
            Err(p) => return Err(v(&format!("panic:{}", p.site()), format!("step {k}: {} at {}:{}", p.message, p.file, p.line))),
        }
    }
    if plan.seal {
        let k = toks.len() - 1;
        let r = vcore::util::guard(|| check_token_roundtrip(plan, k, &fin, true));
        match r {
            Ok(r) => r?,
            Err(p) => return Err(v(&format!("panic:{}", p.site()), format!("sealed: {} at {}:{}", p.message, p.file, p.line))),
        }
    }
    Ok(())
}

pub fn run(ctx: &Ctx, replay: Option<&serde_json::Value>) {
    if let Some(r) = replay {
        let plan: TokenPlan = serde_json::from_value(r["case"].clone()).expect("bad replay case");
        ctx.run_list("history", &[plan], test_plan);
        return;
    }
    ctx.set_rule("TokenPlan (authority + 0..5 first/third-party steps, optional seal, ed25519/secp256r1 for every key) interpreted through the public API; non-trivial = >=2 blocks or a secp256r1 key or sealed; distinct = hash of the plan");
    ctx.assume("ed25519-dalek and p256 primitives are correct (trusted base, shared with the library)");
    ctx.assume("block contents are wire-compatible Datalog (homogeneous sets, no nested sets)");
    let cases = ctx.tier.pick(12_000, 240_000);
    let cfg = GenCfg::default();
    ctx.run_prop(
        "history",
        cases,
        || {
            let cfg = cfg.clone();
            from_tape(1500, move |t| gen_token_plan(t, &cfg, 5))
        },
        test_plan,
    );
}
