//! C11 - authorization is deterministic
use crate::c04::{lib_query, rtoken_of, show_case, Case};
use serde_json::json;
use std::collections::BTreeSet;
use vcore::ast::*;
use vcore::authz::*;
use vcore::gen::*;
use vcore::refdl::*;
use vcore::refeval::{no_externs, EvalErr};
use vcore::runner::{Ctx, Report, Tier, Violation};
use vcore::tape::{from_tape, Tape};
use vcore::tokens::*;
use vcore::util::{guard, hash64};

fn v(sig: &str, detail: String) -> Violation {
    Violation::new(sig, detail)
}

pub fn gen_case(t: &mut Tape, cfg: &GenCfg) -> Case {
    let mut cfg = cfg.clone();
    cfg.sigs = gen_sig_subset(t);
    // several candidate bindings per query: many facts over few predicates
    cfg.max_facts = 6;
    cfg.typed_rules = t.chance(3, 4);
    let mut plan = gen_token_plan(t, &cfg, 2);
    plan.seal = false;
    let authorizer = gen_authorizer(t, &cfg);
    let np = t.range(1, 2);
    let probes = (0..np).map(|_| gen_rule(t, &cfg)).collect();
    Case {
        plan,
        authorizer,
        probes,
    }
}

/// does the reference model see the known root cause ("the first result of a hash-ordered
/// iterator decides") in this input?
///  - a query (check if / reject if / policy) with both a matching and an erroring binding,
///  - a `check all` query with both a falsifying and an erroring binding,
///  - two different error classes reachable (which one is reported depends on the order).
pub fn known_cause(case: &Case) -> (bool, usize, usize) {
    let rtok = rtoken_of(&case.plan);
    let mut ra = RefAuthz::new(Some(&rtok), &case.authorizer);
    // fixpoint ignoring failing bindings, collecting every error class met
    let mut classes: BTreeSet<EvalErr> = BTreeSet::new();
    for _ in 0..50 {
        let mut new = vec![];
        for r in &ra.world.rules {
            for (o, b) in match_body(&r.rule.body, &ra.world.facts, &r.trusted) {
                match eval_exprs(&r.rule.exprs, &b, &no_externs) {
                    vcore::refeval::Constraint::True => {
                        let mut terms = vec![];
                        let mut ok = true;
                        for t in &r.rule.head.terms {
                            match t {
                                Term::Var(v) => match b.get(v) {
                                    Some(x) => terms.push(x.clone()),
                                    None => ok = false,
                                },
                                t => terms.push(t.clone()),
                            }
                        }
                        if ok {
                            let mut o2 = o.clone();
                            o2.insert(r.owner);
                            new.push(OFact {
                                origin: o2,
                                fact: Pred {
                                    name: r.rule.head.name.clone(),
                                    terms,
                                },
                            });
                        }
                    }
                    vcore::refeval::Constraint::False => {}
                    vcore::refeval::Constraint::Error(e) => {
                        classes.insert(e);
                    }
                }
            }
        }
        let before = ra.world.facts.len();
        ra.world.facts.extend(new);
        if ra.world.facts.len() == before {
            break;
        }
    }
    let mut coexist = false;
    let mut multi = 0usize;
    let mut fallible = 0usize;
    let mut visit = |q: &Rule, kind: Option<CheckKind>, default: &Origin, current: usize, ra: &RefAuthz| {
        let tr = trusted_origins(&q.scopes, default, current, &ra.tok);
        let e = eval_query(q, &ra.world.facts, &tr, &no_externs);
        if e.candidates >= 2 {
            multi += 1;
        }
        if !e.errors.is_empty() {
            fallible += 1;
            for c in &e.errors {
                classes.insert(c.clone());
            }
            match kind {
                Some(CheckKind::All) => {
                    if e.falsified > 0 {
                        coexist = true;
                    }
                }
                _ => {
                    if e.matching > 0 {
                        coexist = true;
                    }
                }
            }
        }
    };
    for c in &case.authorizer.block.checks {
        for q in &c.queries {
            visit(q, Some(c.kind), &ra.auth_default, AUTH, &ra);
        }
    }
    for p in &case.authorizer.policies {
        for q in &p.queries {
            visit(q, None, &ra.auth_default, AUTH, &ra);
        }
    }
    for (i, (b, _)) in ra.tok.blocks.iter().enumerate() {
        for c in &b.checks {
            for q in &c.queries {
                visit(q, Some(c.kind), &ra.block_defaults[i], i, &ra);
            }
        }
    }
    for p in &case.probes {
        let tr = trusted_origins(&p.scopes, &default_origins(), AUTH, &ra.tok);
        let e = eval_query(p, &ra.world.facts, &tr, &no_externs);
        for c in &e.errors {
            classes.insert(c.clone());
        }
        if !e.errors.is_empty() && e.errors.len() >= 2 {
            coexist = true;
        }
    }
    let ambiguous = classes.contains(&EvalErr::Ambiguous);
    (coexist || classes.len() >= 2 || ambiguous, multi, fallible + classes.len())
}

fn permuted(ast: &AuthorizerAst, k: usize) -> AuthorizerAst {
    let mut a = ast.clone();
    if !a.block.facts.is_empty() {
        let n = a.block.facts.len();
        a.block.facts.rotate_left(k % n);
        if k % 2 == 1 {
            a.block.facts.reverse();
        }
    }
    if !a.block.rules.is_empty() {
        let n = a.block.rules.len();
        a.block.rules.rotate_left(k % n);
    }
    a
}

pub fn test_case(ctx: &Ctx, case: &Case, rep: &mut Report) -> Result<(), Violation> {
    let n: usize = match (ctx.tier, ctx.replay_mode) {
        (_, true) => 4096,
        (Tier::Quick, _) => 48,
        (Tier::Thorough, _) => 512,
    };
    let plan = &case.plan;
    let pubs = plan.publics();
    let token = match guard(|| build_token(plan)) {
        Ok(Ok(t)) => t,
        Ok(Err(e)) => return Err(v("api-build-error", format!("{e:?}"))),
        Err(p) => return Err(v(&format!("panic:{}", p.site()), p.message)),
    };
    let (known, multi, fallible) = known_cause(case);
    if multi > 0 && fallible > 0 {
        rep.nontrivial(hash64(&(plan, &case.authorizer)));
    }
    rep.class(if known { "targeted:match_and_error_coexist" } else { "main:unique_outcome_expected" });
    if multi > 0 {
        rep.class("query_with_>=2_candidate_bindings");
    }
    if fallible > 0 {
        rep.class("fallible_expression_present");
    }
    rep.sample(show_case(case));

    let mut outcomes: BTreeSet<Outcome> = BTreeSet::new();
    let mut queries: Vec<BTreeSet<String>> = vec![BTreeSet::new(); case.probes.len() * 2];
    let mut run_one = |ast: &AuthorizerAst, in_thread: bool, outcomes: &mut BTreeSet<Outcome>, queries: &mut Vec<BTreeSet<String>>| {
        let one = |token: &biscuit_auth::Biscuit, ast: &AuthorizerAst, pubs: &Vec<biscuit_auth::PublicKey>, probes: &Vec<Rule>| {
            let o = authorize(Some(token), ast, pubs);
            let mut qs = vec![];
            if let Ok(mut a) = build_authorizer(Some(token), ast, pubs, big_limits()) {
                for p in probes {
                    for all in [false, true] {
                        qs.push(match lib_query(&mut a, p, pubs, all) {
                            Ok(s) => format!("{:?}", s),
                            Err(e) => format!("ERR {}", e.split('(').next().unwrap_or("")),
                        });
                    }
                }
            }
            (o, qs)
        };
        let (o, qs) = if in_thread {
            let (tk, a2, p2, pr) = (token.clone(), ast.clone(), pubs.clone(), case.probes.clone());
            std::thread::spawn(move || one(&tk, &a2, &p2, &pr)).join().expect("worker thread")
        } else {
            one(&token, ast, &pubs, &case.probes)
        };
        outcomes.insert(o);
        for (i, q) in qs.into_iter().enumerate() {
            if i < queries.len() {
                queries[i].insert(q);
            }
        }
    };
    for k in 0..n {
        rep.evals(1);
        let ast = if k % 3 == 2 { permuted(&case.authorizer, k) } else { case.authorizer.clone() };
        run_one(&ast, k % 8 == 7, &mut outcomes, &mut queries);
        if outcomes.len() > 1 {
            break;
        }
    }
    // clone of a built authorizer, clone of a used authorizer, second call on a used authorizer:
    // the outcome is a function of the contents, not of the object's history
    if let Ok(mut a) = build_authorizer(Some(&token), &case.authorizer, &pubs, big_limits()) {
        let mut c = a.clone();
        if let Ok(r) = guard(|| c.authorize()) {
            outcomes.insert(normalize(r));
        }
        // rebuilt from its own snapshot (same contents, new object, new hash seeds)
        if let Ok(Ok(snap)) = guard(|| a.to_raw_snapshot()) {
            match guard(|| biscuit_auth::Authorizer::from_raw_snapshot(&snap).map(|mut r| r.authorize())) {
                Ok(Ok(r)) => {
                    rep.class("rebuilt_from_snapshot");
                    outcomes.insert(normalize(r));
                }
                Ok(Err(e)) => {
                    outcomes.insert(Outcome::Panic(format!("the authorizer cannot be rebuilt from its own snapshot: {e:?}")));
                }
                Err(p) => {
                    outcomes.insert(Outcome::Panic(format!("{} at {}:{}", p.message, p.site(), p.line)));
                }
            }
        }
        for _ in 0..2 {
            match guard(|| a.authorize()) {
                Ok(r) => {
                    outcomes.insert(normalize(r));
                }
                Err(p) => {
                    outcomes.insert(Outcome::Panic(format!("{} at {}:{}", p.message, p.site(), p.line)));
                }
            }
            let mut c2 = a.clone();
            if let Ok(r) = guard(|| c2.authorize()) {
                outcomes.insert(normalize(r));
            }
        }
    }
    // tight iteration budget around the model cost: acceptance must not depend on the order in
    // which the engine visits its rule groups
    let mut tight: BTreeSet<Outcome> = BTreeSet::new();
    {
        let rtok = rtoken_of(plan);
        let mut ra = RefAuthz::new(Some(&rtok), &case.authorizer);
        if let Ok(k) = ra.world.run(&no_externs, 1000) {
            if k >= 1 {
                rep.class(format!("tight_iteration_budget:rounds={}", k.min(4)));
                let d = (hash64(&(plan, &case.authorizer)) % 2) as u64;
                let limits = biscuit_auth::AuthorizerLimits {
                    max_iterations: k as u64 + d,
                    ..big_limits()
                };
                for _ in 0..(n / 2).max(8) {
                    rep.evals(1);
                    tight.insert(authorize_with(Some(&token), &case.authorizer, &pubs, limits.clone()));
                    if tight.len() > 1 {
                        break;
                    }
                }
            }
        }
    }
    if tight.len() > 1 {
        let vio = v(
            if known { "nondeterministic:first-result-wins" } else { "nondeterministic:tight-iteration-budget" },
            format!(
                "distinct outcomes over fresh builds under a tight iteration budget: {:?}\n{}",
                tight,
                serde_json::to_string_pretty(&show_case(case)).unwrap()
            ),
        );
        if !ctx.tolerate(&vio) {
            return Err(vio);
        }
    }
    let qdiff = queries.iter().position(|s| s.len() > 1);
    if outcomes.len() > 1 || qdiff.is_some() {
        let sig = if known {
            "nondeterministic:first-result-wins"
        } else {
            "nondeterministic"
        };
        let vio = v(
            sig,
            format!(
                "distinct outcomes over fresh builds: {:?}\nquery result sets: {:?}\n{}",
                outcomes,
                qdiff.map(|i| &queries[i]),
                serde_json::to_string_pretty(&show_case(case)).unwrap()
            ),
        );
        if !ctx.tolerate(&vio) {
            return Err(vio);
        }
    }
    Ok(())
}

pub fn run(ctx: &Ctx, replay: Option<&serde_json::Value>) {
    if let Some(r) = replay {
        let case: Case = serde_json::from_value(r["case"].clone()).expect("bad replay case");
        ctx.run_list("builds", &[case], |c, r| test_case(ctx, c, r));
        return;
    }
    ctx.set_rule("(token, authorizer, probe queries) with untyped expressions so that some bindings fail, 2-8 candidate bindings per query; each input evaluated on N fresh builds (48 quick / 512 thorough / 4096 replay; every HashMap gets a new RandomState), every 3rd build with permuted authorizer facts and rules, every 4th in a freshly spawned thread, plus a clone; oracle: exactly one normalised outcome and one result set per query; non-trivial = some query has >=2 candidate bindings and the program has a fallible expression; distinct = hash(plan, authorizer)");
    ctx.assume("hash seeds come from the OS and cannot be driven by VERIF_SEED: a reported difference is always real, a rare order dependence can be missed");
    ctx.extra("builds_per_input", json!(ctx.tier.pick(48, 512)));
    // targeted generator: builds the coexistence on purpose, so that the open finding keeps being
    // re-confirmed (and its disappearance is noticed)
    let mut targeted = vec![];
    for m in 2..8i64 {
        for kind in 0..4 {
            let facts: Vec<Pred> = (0..m).map(|i| Pred::new("p0", vec![Term::Int(i)])).collect();
            let div = Expr {
                ops: vec![
                    Op::Value(Term::Int(10)),
                    Op::Value(Term::v("i")),
                    Op::Binary(Bin::Div),
                    Op::Value(Term::Int(if kind == 1 { 5 } else { 0 })),
                    Op::Binary(Bin::GreaterThan),
                ],
            };
            let q = Rule::query(vec![Pred::new("p0", vec![Term::v("i")])], vec![div], vec![]);
            let mut authorizer = AuthorizerAst::default();
            let mut block = Block {
                facts,
                ..Default::default()
            };
            match kind {
                0 => block.checks.push(Check { kind: CheckKind::One, queries: vec![q] }),
                1 => block.checks.push(Check { kind: CheckKind::All, queries: vec![q] }),
                2 => block.checks.push(Check { kind: CheckKind::Reject, queries: vec![q] }),
                _ => authorizer.policies.push(Policy { allow: true, queries: vec![q] }),
            }
            authorizer.policies.push(Policy {
                allow: true,
                queries: vec![Rule::query(vec![], vec![Expr { ops: vec![Op::Value(Term::Bool(true))] }], vec![])],
            });
            let kp = |s: u64| vcore::keys::KeyPlan { alg: vcore::keys::Alg::Ed, seed: 900 + s };
            targeted.push(Case {
                plan: TokenPlan {
                    keys: vec![kp(1)],
                    root: kp(2),
                    root_key_id: None,
                    authority: block,
                    first_next: kp(3),
                    steps: vec![],
                    seal: false,
                },
                authorizer,
                probes: vec![],
            });
        }
    }
    // second family: the outcome hangs on strings that exist only during an evaluation (they are
    // interned temporarily; what a first call leaves behind must not change a second call)
    {
        let s = |x: &str| Op::Value(Term::s(x));
        let var = |x: &str| Op::Value(Term::v(x));
        let concat_eq = |l1: Op, l2: Op, r1: Op, r2: Op, op: Bin| Expr {
            ops: vec![l1, l2, Op::Binary(Bin::Add), r1, r2, Op::Binary(Bin::Add), Op::Binary(op)],
        };
        let type_eq = Expr {
            ops: vec![Op::Value(Term::Int(1)), Op::Unary(Un::TypeOf), Op::Value(Term::Int(2)), Op::Unary(Un::TypeOf), Op::Binary(Bin::HeterogeneousEqual)],
        };
        let exprs: Vec<(Vec<Pred>, Expr)> = vec![
            (vec![], concat_eq(s("a"), s("b"), s("a"), s("b"), Bin::Equal)),
            (vec![], concat_eq(s("fresh-"), s("one"), s("fresh-"), s("one"), Bin::HeterogeneousEqual)),
            (vec![Pred::new("p1", vec![Term::v("s")])], concat_eq(var("s"), s("/x"), var("s"), s("/x"), Bin::Equal)),
            (
                vec![Pred::new("p1", vec![Term::v("s")]), Pred::new("p1", vec![Term::v("t")])],
                concat_eq(var("s"), var("t"), var("s"), var("t"), Bin::Equal),
            ),
            (vec![], type_eq),
        ];
        for (body, e) in exprs {
            for kind in 0..4 {
                let q = Rule::query(body.clone(), vec![e.clone()], vec![]);
                let mut authorizer = AuthorizerAst::default();
                let mut block = Block {
                    facts: vec![Pred::new("p1", vec![Term::s("left")]), Pred::new("p1", vec![Term::s("right")])],
                    ..Default::default()
                };
                match kind {
                    0 => block.checks.push(Check { kind: CheckKind::One, queries: vec![q] }),
                    1 => block.checks.push(Check { kind: CheckKind::All, queries: vec![q] }),
                    2 => authorizer.block.checks.push(Check { kind: CheckKind::Reject, queries: vec![q] }),
                    _ => authorizer.policies.push(Policy { allow: false, queries: vec![q] }),
                }
                // the computed strings also occur as constants of a policy that is looked at
                // later: whatever interns them then must not change an earlier comparison on a
                // second call
                authorizer.policies.push(Policy {
                    allow: false,
                    queries: vec![Rule::query(
                        vec![Pred::new(
                            "marker",
                            ["ab", "fresh-one", "integer", "left/x", "right/x", "leftleft", "leftright", "rightleft", "rightright"].iter().map(|x| Term::s(x)).collect(),
                        )],
                        vec![],
                        vec![],
                    )],
                });
                authorizer.policies.push(Policy {
                    allow: true,
                    queries: vec![Rule::query(vec![], vec![Expr { ops: vec![Op::Value(Term::Bool(true))] }], vec![])],
                });
                let kp = |s: u64| vcore::keys::KeyPlan { alg: vcore::keys::Alg::Ed, seed: 950 + s };
                targeted.push(Case {
                    plan: TokenPlan {
                        keys: vec![kp(1)],
                        root: kp(2),
                        root_key_id: None,
                        authority: block,
                        first_next: kp(3),
                        steps: vec![],
                        seal: false,
                    },
                    authorizer,
                    probes: vec![],
                });
            }
        }
    }
    ctx.run_list("targeted", &targeted, |c, r| test_case(ctx, c, r));
    let cases = ctx.tier.pick(3000, 30_000);
    let cfg = GenCfg {
        typed: false,
        max_rules: 2,
        max_checks: 2,
        n_keys: 3,
        ..GenCfg::default()
    };
    ctx.run_prop(
        "builds",
        cases,
        || {
            let cfg = cfg.clone();
            from_tape(1400, move |t| gen_case(t, &cfg))
        },
        |c, r| test_case(ctx, c, r),
    );
}
