//! C05 - Datalog evaluation computes exactly the least fixpoint with exact provenance
use biscuit_auth::builder::{self as b, Convert};
use biscuit_auth::datalog::{self, RunLimits, SymbolTable, TrustedOrigins, World};
use serde::{Deserialize, Serialize};
use serde_json::json;
use std::collections::BTreeSet;
use std::time::Duration;
use vcore::ast::*;
use vcore::gen::*;
use vcore::refdl::*;
use vcore::refeval::no_externs;
use vcore::runner::{Ctx, Report, Violation};
use vcore::tape::{from_tape, Tape};
use vcore::util::{guard, hash64};

#[derive(Clone, Debug, Serialize, Deserialize)]
pub struct Case {
    pub facts: Vec<(Vec<usize>, Pred)>,
    pub rules: Vec<(usize, Vec<usize>, Rule)>,
    /// insertion order permutation seeds
    pub perm: Vec<u16>,
    pub probes: Vec<(Vec<usize>, Rule)>,
}

const UNIVERSE: [usize; 5] = [0, 1, 2, 3, AUTH];

fn v(sig: &str, detail: String) -> Violation {
    Violation::new(sig, detail)
}

fn gen_origin(t: &mut Tape, min: usize) -> Vec<usize> {
    let n = t.weighted(&[if min == 0 { 1 } else { 0 }, 6, 3, 1, 1]).max(min);
    let mut s = BTreeSet::new();
    for _ in 0..n {
        s.insert(UNIVERSE[t.pick(5)]);
    }
    s.into_iter().collect()
}

pub fn gen_case(t: &mut Tape, cfg: &GenCfg) -> Case {
    let mut cfg = cfg.clone();
    if t.chance(4, 5) {
        cfg.sigs = gen_sig_subset(t);
    }
    let cfg = &cfg;
    let nf = t.range(0, 12);
    let facts = (0..nf).map(|_| (gen_origin(t, 1), gen_fact(t, cfg))).collect();
    let nr = t.range(1, 5);
    let rules = (0..nr)
        .map(|_| {
            let owner = UNIVERSE[t.pick(5)];
            let mut trusted: BTreeSet<usize> = UNIVERSE.iter().cloned().filter(|_| t.chance(2, 3)).collect();
            if t.chance(3, 4) {
                trusted.insert(owner);
            }
            let mut r = gen_rule(t, cfg);
            r.scopes.clear();
            (owner, trusted.into_iter().collect(), r)
        })
        .collect();
    let perm = (0..24).map(|_| t.raw()).collect();
    let np = t.range(1, 3);
    let probes = (0..np)
        .map(|_| {
            let trusted: Vec<usize> = UNIVERSE.iter().cloned().filter(|_| t.chance(3, 4)).collect();
            let mut q = if t.chance(1, 2) { gen_rule(t, cfg) } else { gen_query(t, cfg) };
            q.scopes.clear();
            (trusted, q)
        })
        .collect();
    Case {
        facts,
        rules,
        perm,
        probes,
    }
}

fn parse_origin(o: &datalog::Origin) -> Origin {
    let s = o.to_string();
    s.split(',')
        .map(|x| x.trim())
        .filter(|x| !x.is_empty())
        .map(|x| if x == "authorizer" { AUTH } else { x.parse::<usize>().expect("origin display") })
        .collect()
}

fn big() -> RunLimits {
    RunLimits {
        max_facts: 1_000_000,
        max_iterations: 100_000,
        max_time: Duration::from_secs(600),
    }
}

struct LibWorld {
    world: World,
    symbols: SymbolTable,
}

fn permute<T: Clone>(xs: &[T], perm: &[u16], salt: usize) -> Vec<T> {
    let mut idx: Vec<usize> = (0..xs.len()).collect();
    // deterministic Fisher-Yates driven by the tape values
    for i in (1..idx.len()).rev() {
        let r = perm[(i + salt) % perm.len()] as usize;
        idx.swap(i, r % (i + 1));
    }
    idx.into_iter().map(|i| xs[i].clone()).collect()
}

fn build_world(case: &Case, order: usize) -> LibWorld {
    let keys: Vec<biscuit_auth::PublicKey> = vec![];
    let mut symbols = SymbolTable::default();
    let mut world = World::new();
    let facts = if order == 0 { case.facts.clone() } else { permute(&case.facts, &case.perm, order) };
    let rules = if order == 0 { case.rules.clone() } else { permute(&case.rules, &case.perm, order + 7) };
    // order 2: rules first
    let add_facts = |world: &mut World, symbols: &mut SymbolTable| {
        for (o, f) in &facts {
            let origin: datalog::Origin = o.iter().cloned().collect();
            world.add_fact(&origin, f.to_fact().convert(symbols));
        }
    };
    let add_rules = |world: &mut World, symbols: &mut SymbolTable| {
        for (owner, trusted, r) in &rules {
            let tr: TrustedOrigins = trusted.iter().cloned().collect();
            world.add_rule(*owner, &tr, r.to_b(&keys).convert(symbols));
        }
    };
    if order == 2 {
        add_rules(&mut world, &mut symbols);
        add_facts(&mut world, &mut symbols);
    } else {
        add_facts(&mut world, &mut symbols);
        add_rules(&mut world, &mut symbols);
    }
    LibWorld { world, symbols }
}

fn lib_facts(w: &LibWorld) -> Result<BTreeSet<OFact>, String> {
    let mut out = BTreeSet::new();
    for (o, f) in w.world.facts.iter_all() {
        let bf = b::Fact::convert_from(f, &w.symbols).map_err(|e| format!("{e:?}"))?;
        out.insert(OFact {
            origin: parse_origin(o),
            fact: Pred::from_b(&bf.predicate),
        });
    }
    Ok(out)
}

fn show_facts(s: &BTreeSet<OFact>) -> String {
    s.iter()
        .map(|f| format!("{:?} {}({:?})", f.origin, f.fact.name, f.fact.terms))
        .collect::<Vec<_>>()
        .join("\n")
}

pub fn test_case(case: &Case, rep: &mut Report) -> Result<(), Violation> {
    // reference
    let mut rw = RWorld::default();
    for (o, f) in &case.facts {
        rw.add_fact(o.iter().cloned().collect(), f.clone());
    }
    for (owner, trusted, r) in &case.rules {
        rw.rules.push(ORule {
            owner: *owner,
            trusted: trusted.iter().cloned().collect(),
            rule: r.clone(),
        });
    }
    let base = rw.facts.len();
    let rounds = match rw.run(&no_externs, 5000) {
        Ok(r) => r,
        Err(_) => {
            rep.excluded += 1;
            rep.class("excluded:reference_error");
            return Ok(());
        }
    };
    let expected = rw.facts.clone();
    let origins: BTreeSet<&Origin> = expected.iter().map(|f| &f.origin).collect();
    let has_join = case.rules.iter().any(|r| r.2.body.len() >= 2);
    rep.class(format!("rounds={}", rounds.min(5)));
    rep.class(format!("derived={}", match expected.len() - base { 0 => "0", 1..=3 => "1-3", 4..=20 => "4-20", _ => ">20" }));
    if case.rules.iter().any(|r| r.2.head.terms.iter().any(|t| matches!(t, Term::Var(v) if v == "unbound"))) {
        rep.class("unbound_head_variable");
    }
    if (rounds >= 2 || has_join) && expected.len() > base && origins.len() >= 2 {
        rep.nontrivial(hash64(&(&case.facts, &case.rules)));
    }
    rep.sample(json!({
        "facts": case.facts.iter().map(|(o, f)| format!("{:?} {}({:?})", o, f.name, f.terms)).collect::<Vec<_>>(),
        "rules": case.rules.iter().map(|(o, t, r)| format!("owner {o} trusted {t:?}: {:?}", r)).collect::<Vec<_>>(),
        "fixpoint_size": expected.len(), "rounds": rounds,
    }));

    let mut first: Option<BTreeSet<OFact>> = None;
    for order in 0..3 {
        rep.evals(1);
        let r = guard(|| {
            let mut w = build_world(case, order);
            let res = w.world.run_with_limits(&w.symbols, big());
            (w, res)
        });
        let (w, res) = match r {
            Ok(x) => x,
            Err(p) => return Err(v(&format!("panic:{}", p.site()), format!("{} at {}:{}", p.message, p.file, p.line))),
        };
        if let Err(e) = res {
            return Err(v("engine-error-on-error-free-program", format!("order {order}: {e:?}")));
        }
        let got = lib_facts(&w).map_err(|e| v("fact-conversion", e))?;
        let missing: BTreeSet<OFact> = expected.difference(&got).cloned().collect();
        let extra: BTreeSet<OFact> = got.difference(&expected).cloned().collect();
        if !missing.is_empty() {
            return Err(v(
                "fixpoint-missing-facts",
                format!("insertion order {order}: missing\n{}\n(extra: {})", show_facts(&missing), extra.len()),
            ));
        }
        if !extra.is_empty() {
            return Err(v("fixpoint-extra-facts", format!("insertion order {order}: extra\n{}", show_facts(&extra))));
        }
        match &first {
            None => first = Some(got),
            Some(f) => {
                if *f != got {
                    return Err(v("insertion-order-dependence", format!("order {order}")));
                }
            }
        }
        // probe queries against the model
        let keys: Vec<biscuit_auth::PublicKey> = vec![];
        for (k, (trusted, q)) in case.probes.iter().enumerate() {
            let tr_ref: Origin = trusted.iter().cloned().collect();
            let tr_lib: TrustedOrigins = trusted.iter().cloned().collect();
            let mut symbols = w.symbols.clone();
            let dq = q.to_b(&keys).convert(&mut symbols);
            // query_rule
            let refq = rw.apply_rule(
                &ORule {
                    owner: 3,
                    trusted: tr_ref.clone(),
                    rule: q.clone(),
                },
                &no_externs,
            );
            let Ok(refq) = refq else { continue };
            let refset: BTreeSet<OFact> = refq.into_iter().collect();
            let libq = guard(|| w.world.query_rule(dq.clone(), 3, &tr_lib, &symbols));
            match libq {
                Err(p) => return Err(v(&format!("panic:{}", p.site()), p.message)),
                Ok(Err(e)) => return Err(v("query_rule-error", format!("probe {k}: {e:?}"))),
                Ok(Ok(fs)) => {
                    let mut got = BTreeSet::new();
                    for (o, f) in fs.iter_all() {
                        let bf = b::Fact::convert_from(f, &symbols).map_err(|e| v("fact-conversion", format!("{e:?}")))?;
                        got.insert(OFact {
                            origin: parse_origin(o),
                            fact: Pred::from_b(&bf.predicate),
                        });
                    }
                    if got != refset {
                        return Err(v(
                            "query_rule-differs",
                            format!("probe {k} {:?} trusted {:?}\nlibrary:\n{}\nreference:\n{}", q, trusted, show_facts(&got), show_facts(&refset)),
                        ));
                    }
                }
            }
            let qe = eval_query(q, &rw.facts, &tr_ref, &no_externs);
            if !qe.errors.is_empty() {
                continue;
            }
            // query_match: a head with an unbound variable never matches in the library
            let head_ok = !refset.is_empty();
            match guard(|| w.world.query_match(dq.clone(), 3, &tr_lib, &symbols)) {
                Ok(Ok(m)) => {
                    if m != head_ok {
                        return Err(v("query_match-differs", format!("probe {k} {:?}: library {m} reference {head_ok}", q)));
                    }
                }
                Ok(Err(e)) => return Err(v("query_match-error", format!("{e:?}"))),
                Err(p) => return Err(v(&format!("panic:{}", p.site()), p.message)),
            }
            let all_ok = qe.candidates > 0 && qe.falsified == 0;
            match guard(|| w.world.query_match_all(dq.clone(), &tr_lib, &symbols)) {
                Ok(Ok(m)) => {
                    if m != all_ok {
                        return Err(v("query_match_all-differs", format!("probe {k} {:?}: library {m} reference {all_ok} ({qe:?})", q)));
                    }
                }
                Ok(Err(e)) => return Err(v("query_match_all-error", format!("{e:?}"))),
                Err(p) => return Err(v(&format!("panic:{}", p.site()), p.message)),
            }
        }
    }
    Ok(())
}

pub fn run(ctx: &Ctx, replay: Option<&serde_json::Value>) {
    if let Some(r) = replay {
        let case: Case = serde_json::from_value(r["case"].clone()).expect("bad replay case");
        ctx.run_list("worlds", &[case], test_case);
        return;
    }
    ctx.set_rule("datalog::World driven directly: 0-12 facts with arbitrary origin sets over {0,1,2,3,authorizer}, 1-5 rules (owner, arbitrary trusted set; recursion, joins of 1-3 predicates, repeated variables, constants of every type, typed expressions, unbound head variables), three insertion orders; oracle = RefDatalog (both inclusions) + probe query_rule/query_match/query_match_all; non-trivial = (>=2 iterations or a join of >=2 predicates) and something derived and >=2 distinct origin sets in the result; distinct = hash(facts, rules)");
    ctx.assume("typed (total) expressions only; programs on which the reference meets an expression error are excluded and counted");
    let cases = ctx.tier.pick(300_000, 2_000_000);
    let cfg = GenCfg {
        allow_unbound_head: true,
        scopes: false,
        ..GenCfg::default()
    };
    ctx.run_prop(
        "worlds",
        cases,
        || {
            let cfg = cfg.clone();
            from_tape(900, move |t| gen_case(t, &cfg))
        },
        test_case,
    );
}
