//! C08 - sealed tokens are final
use crate::c01;
use biscuit_auth::{Biscuit, UnverifiedBiscuit};
use serde::{Deserialize, Serialize};
use serde_json::json;
use vcore::ast::AuthorizerAst;
use vcore::authz::authorize;
use vcore::gen::{gen_authorizer, GenCfg};
use vcore::runner::{Ctx, Report, Violation};
use vcore::tape::{from_tape, Tape};
use vcore::tokens::*;
use vcore::util::{guard, hash64};

#[derive(Clone, Debug, Serialize, Deserialize)]
pub struct Case {
    pub mutation: c01::Case,
    pub authorizers: Vec<AuthorizerAst>,
    pub extra: vcore::ast::Block,
}

fn v(sig: &str, detail: String) -> Violation {
    Violation::new(sig, detail)
}

fn tol(ctx: &Ctx, r: Result<(), Violation>) -> Result<(), Violation> {
    match r {
        Err(v) if ctx.tolerate(&v) => Ok(()),
        other => other,
    }
}

pub fn gen_case(t: &mut Tape, cfg: &GenCfg) -> Case {
    let mutation = c01::gen_case(t, cfg, true);
    let n = t.range(1, 3);
    let authorizers = (0..n).map(|_| gen_authorizer(t, cfg)).collect();
    let extra = vcore::gen::gen_block(t, cfg);
    Case {
        mutation,
        authorizers,
        extra,
    }
}

/// every operation that would extend a sealed token must be refused
fn post_seal_ops(case: &Case, unsealed: &Biscuit, sealed: &Biscuit, path: &str) -> Result<(), Violation> {
    let plan = &case.mutation.plan;
    let pubs = plan.publics();
    let kp = gen_fixed_key(201);
    let ext = plan.keys[0].keypair();
    let bb = || case.extra.to_builder(&pubs).unwrap_or_default();

    macro_rules! must_fail {
        ($name:expr, $e:expr) => {
            match guard(|| $e) {
                Ok(Ok(_)) => {
                    return Err(v(
                        &format!("post-seal-op-accepted:{}", $name),
                        format!("{} on a sealed token ({path}) of shape {} succeeded", $name, plan.shape()),
                    ))
                }
                Ok(Err(_)) => {}
                Err(p) => return Err(v(&format!("panic:{}", p.site()), format!("{} ({path}): {}", $name, p.message))),
            }
        };
    }
    must_fail!("append", sealed.append(bb()));
    must_fail!("append_with_keypair", sealed.append_with_keypair(&kp, bb()));
    must_fail!("third_party_request", sealed.third_party_request());
    must_fail!("seal", sealed.seal());
    // a third-party block legitimately produced for the unsealed twin
    let req = unsealed
        .third_party_request()
        .map_err(|e| v("third_party_request-on-unsealed-failed", format!("{e:?}")))?;
    let tp = req
        .create_block(&ext.private(), bb())
        .map_err(|e| v("create_block-failed", format!("{e:?}")))?;
    let tp_bytes = tp.serialize().map_err(|e| v("third-party-serialize", format!("{e:?}")))?;
    must_fail!("append_third_party", sealed.append_third_party(ext.public(), tp.clone()));
    must_fail!(
        "append_third_party_with_keypair",
        sealed.append_third_party_with_keypair(ext.public(), tp.clone(), gen_fixed_key(202))
    );

    // unverified path
    let sb = sealed.to_vec().map_err(|e| v("to_vec-error", format!("{e:?}")))?;
    let u = UnverifiedBiscuit::from(&sb).map_err(|e| v("unverified-rejects-sealed-token", format!("{e:?}")))?;
    must_fail!("unverified.append", u.append(bb()));
    must_fail!("unverified.append_with_keypair", u.append_with_keypair(&kp, bb()));
    must_fail!("unverified.third_party_request", u.third_party_request());
    must_fail!("unverified.seal", u.seal());
    must_fail!("unverified.append_third_party", u.append_third_party(&tp_bytes));
    must_fail!(
        "unverified.append_third_party_with_keypair",
        u.append_third_party_with_keypair(&tp_bytes, gen_fixed_key(203))
    );
    Ok(())
}

fn gen_fixed_key(tag: u8) -> biscuit_auth::KeyPair {
    vcore::keys::KeyPlan {
        alg: vcore::keys::Alg::Ed,
        seed: 0xabcdef00 | tag as u64,
    }
    .keypair()
}

pub fn test_case(ctx: &Ctx, case: &Case, rep: &mut Report) -> Result<(), Violation> {
    let plan = &case.mutation.plan;
    let (toks, sealed) = match guard(|| build_history(plan)) {
        Ok(Ok(x)) => x,
        Ok(Err(e)) => return Err(v("api-build-error", format!("{e:?}"))),
        Err(p) => return Err(v(&format!("panic:{}", p.site()), p.message)),
    };
    let unsealed = toks.last().unwrap();
    let root_pub = plan.root.public();
    rep.class(format!("blocks={}", plan.block_count()));
    if plan.block_count() >= 2 || plan.root.alg == vcore::keys::Alg::P256 || plan.steps.iter().any(|s| s.is_third()) {
        rep.nontrivial(hash64(plan));
    }
    rep.sample(json!({"shape": plan.shape(), "authorizers": case.authorizers.len()}));

    // 1. verifies on all entry points, same accessors
    let sb = sealed.to_vec().map_err(|e| v("to_vec-error", format!("{e:?}")))?;
    let s64 = sealed.to_base64().map_err(|e| v("to_base64-error", format!("{e:?}")))?;
    let r1 = Biscuit::from(&sb, root_pub).map_err(|e| v("from-rejects-sealed-token", format!("{e:?} shape {}", plan.shape())))?;
    let r2 = Biscuit::from_base64(&s64, root_pub).map_err(|e| v("from_base64-rejects-sealed-token", format!("{e:?}")))?;
    let r3 = UnverifiedBiscuit::from(&sb)
        .map_err(|e| v("unverified-rejects-sealed-token", format!("{e:?}")))?
        .verify(root_pub)
        .map_err(|e| v("verify-rejects-sealed-token", format!("{e:?}")))?;
    let n = unsealed.block_count();
    for (name, s) in [("memory", &sealed), ("from", &r1), ("from_base64", &r2), ("unverified.verify", &r3)] {
        if s.block_count() != n
            || s.context() != unsealed.context()
            || s.external_public_keys() != unsealed.external_public_keys()
            || s.root_key_id() != unsealed.root_key_id()
        {
            return Err(v("sealed-accessors-differ", format!("{name} shape {}", plan.shape())));
        }
        if s.revocation_identifiers() != unsealed.revocation_identifiers() {
            return Err(v("sealed-revocation-ids-differ", format!("{name} shape {}", plan.shape())));
        }
        for i in 0..n {
            if s.print_block_source(i).ok() != unsealed.print_block_source(i).ok() {
                return Err(v("sealed-block-source-differs", format!("{name} block {i}")));
            }
            if s.block_symbols(i).ok() != unsealed.block_symbols(i).ok() {
                return Err(v("sealed-block-symbols-differ", format!("{name} block {i}")));
            }
        }
        // the wire blocks are untouched: only the proof differs
        let a = vcore::wire::WToken::decode(&s.to_vec().unwrap()).map_err(|e| v("harness-decode", e))?;
        let b = vcore::wire::WToken::decode(&unsealed.to_vec().unwrap()).map_err(|e| v("harness-decode", e))?;
        if a.authority != b.authority || a.blocks != b.blocks || a.root_key_id != b.root_key_id {
            return Err(v("seal-altered-blocks", format!("{name} shape {}", plan.shape())));
        }
        if !matches!(a.proof, vcore::wire::WProof::Seal(_)) {
            return Err(v("sealed-token-carries-secret", format!("{name} shape {}", plan.shape())));
        }
    }

    // 2. authorizes exactly like the unsealed token
    let pubs = plan.publics();
    for (k, a) in case.authorizers.iter().enumerate() {
        rep.evals(1);
        let o1 = authorize(Some(unsealed), a, &pubs);
        for (name, s) in [("memory", &sealed), ("from", &r1), ("unverified.verify", &r3)] {
            let o2 = authorize(Some(s), a, &pubs);
            if o1 != o2 {
                return Err(v(
                    "sealed-authorizes-differently",
                    format!("authorizer {k} ({name}): unsealed {:?} sealed {:?}", o1, o2),
                ));
            }
        }
        rep.class(format!("authz:{}", if o1.is_allow() { "allow" } else if o1.is_logic() { "refused" } else { "error" }));
    }

    // 3. cannot be extended, before and after a round trip
    tol(ctx, post_seal_ops(case, unsealed, &sealed, "in-memory"))?;
    tol(ctx, post_seal_ops(case, unsealed, &r1, "reloaded"))?;
    tol(ctx, post_seal_ops(case, unsealed, &r3, "unverified-then-verified"))?;
    rep.class("post_seal_ops_refused");

    // 4. no byte modification that adds, removes or alters a block verifies (C01 catalogue on
    //    sealed bytes, incl. attacker grafts)
    let mut sub = Report::default();
    let r = c01::test_case_mode(ctx, &case.mutation, &mut sub, false);
    rep.evaluations += sub.evaluations;
    rep.classes.extend(sub.classes.into_iter().filter(|c| c.starts_with("mut:")));
    rep.extra_nontrivial.extend(sub.extra_nontrivial);
    r
}

pub fn run(ctx: &Ctx, replay: Option<&serde_json::Value>) {
    if let Some(r) = replay {
        let case: Case = serde_json::from_value(r["case"].clone()).expect("bad replay case");
        ctx.run_list("sealed", &[case], |c, r| test_case(ctx, c, r));
        return;
    }
    ctx.set_rule("TokenPlan (always sealed at the end) x 1-3 generated authorizers x every operation after seal on three paths (in memory, reloaded, unverified) x the C01 mutation catalogue on the sealed bytes; non-trivial = >=2 blocks or secp256r1 root or third-party block; variants distinct as in C01");
    ctx.assume("authorizers are typed (total) programs under non-binding limits");
    let cases = ctx.tier.pick(2500, 50000);
    let cfg = GenCfg {
        max_facts: 3,
        max_rules: 2,
        max_checks: 2,
        ..GenCfg::default()
    };
    ctx.run_prop(
        "sealed",
        cases,
        || {
            let cfg = cfg.clone();
            from_tape(2200, move |t| gen_case(t, &cfg))
        },
        |c, r| test_case(ctx, c, r),
    );
}
