//! C19 - the C API mirrors the Rust API and never aborts
//!
//! parent: generates call sequences, streams them to child processes (`vcheck --c19-worker`);
//! child: interprets a sequence over a handle table, calling the `extern "C"` functions of
//! biscuit-capi (linked as an rlib) next to the corresponding Rust operations, and acknowledges
//! every step, so that an abort is attributed to the call that caused it.
use biscuit_auth::builder as b;
use biscuit_auth::error;
use biscuit_capi as c;
use rand::prelude::*;
use serde::{Deserialize, Serialize};
use serde_json::json;
use std::ffi::{CStr, CString};
use std::io::{BufRead, BufReader, Write};
use std::os::raw::c_char;
use std::process::{Command, Stdio};
use std::sync::mpsc;
use std::time::Duration;
use vcore::runner::{Ctx, Tier, Violation};
use vcore::tape::Tape;
use vcore::util::{derive_seed, hash64};

/// a reference to a live handle: None = NULL, Some(r) = the (r * len >> 16)-th live handle
type H = Option<u16>;

#[derive(Clone, Copy, Debug, Serialize, Deserialize, Hash, PartialEq)]
pub enum Alg {
    Ed,
    P256,
}

#[derive(Clone, Copy, Debug, Serialize, Deserialize, Hash, PartialEq)]
pub enum Item {
    Fact,
    Rule,
    Check,
    Policy,
}

#[derive(Clone, Debug, Serialize, Deserialize, Hash)]
pub enum Txt {
    Utf8(String),
    /// not valid UTF-8 (no interior NUL)
    Raw(Vec<u8>),
}

#[derive(Clone, Debug, Serialize, Deserialize, Hash)]
pub enum BytesSrc {
    /// serialization of a live token, with `flips` applied
    Token { t: H, sealed: bool, flips: Vec<(u16, u8)>, truncate: Option<u16> },
    Random(Vec<u8>),
}

#[derive(Clone, Debug, Serialize, Deserialize, Hash)]
pub enum Op {
    KeyPairNew { seed: u8, seed_len: u8, alg: Alg },
    KeyPairPublic { kp: H },
    KeyPairSerialize { kp: H },
    /// deserialize the private bytes of a live key pair (or random bytes) under an algorithm
    KeyPairDeserialize { from: H, random: Option<Vec<u8>>, alg: Alg },
    PublicKeySerialize { pk: H },
    PublicKeyDeserialize { from: H, random: Option<Vec<u8>>, alg: Alg },
    BiscuitBuilderNew,
    BbSetContext { bb: H, s: Txt },
    BbSetRootKeyId { bb: H, id: u32 },
    BbAdd { bb: H, item: Item, s: Txt },
    BbBuild { bb: H, kp: H, seed: u8, seed_len: u8 },
    BiscuitFrom { src: BytesSrc, root: H },
    SerializedSize { t: H },
    SealedSize { t: H },
    Serialize { t: H },
    SerializeSealed { t: H },
    BlockCount { t: H },
    BlockContext { t: H, i: u32 },
    Print { t: H },
    PrintBlockSource { t: H, i: u32 },
    CreateBlock,
    BlkSetContext { blk: H, s: Txt },
    BlkAdd { blk: H, item: Item, s: Txt },
    AppendBlock { t: H, blk: H, kp: H },
    BiscuitAuthorizer { t: H },
    AbNew,
    AbAdd { ab: H, item: Item, s: Txt },
    /// token must be a valid reference in the C signature: skipped when no token is live
    AbBuild { ab: H, t: u16 },
    AbBuildUnauthenticated { ab: H },
    Authorize { a: H },
    AuthorizerPrint { a: H },
    /// the error_* family at an arbitrary moment, with an arbitrary index
    ErrorProbe { i: u64 },
    Free { kind: u8, h: H },
}

fn op_name(op: &Op) -> &'static str {
    match op {
        Op::KeyPairNew { .. } => "key_pair_new",
        Op::KeyPairPublic { .. } => "key_pair_public",
        Op::KeyPairSerialize { .. } => "key_pair_serialize",
        Op::KeyPairDeserialize { .. } => "key_pair_deserialize",
        Op::PublicKeySerialize { .. } => "public_key_serialize",
        Op::PublicKeyDeserialize { .. } => "public_key_deserialize",
        Op::BiscuitBuilderNew => "biscuit_builder",
        Op::BbSetContext { .. } => "biscuit_builder_set_context",
        Op::BbSetRootKeyId { .. } => "biscuit_builder_set_root_key_id",
        Op::BbAdd { item, .. } => match item {
            Item::Fact => "biscuit_builder_add_fact",
            Item::Rule => "biscuit_builder_add_rule",
            _ => "biscuit_builder_add_check",
        },
        Op::BbBuild { .. } => "biscuit_builder_build",
        Op::BiscuitFrom { .. } => "biscuit_from",
        Op::SerializedSize { .. } => "biscuit_serialized_size",
        Op::SealedSize { .. } => "biscuit_sealed_size",
        Op::Serialize { .. } => "biscuit_serialize",
        Op::SerializeSealed { .. } => "biscuit_serialize_sealed",
        Op::BlockCount { .. } => "biscuit_block_count",
        Op::BlockContext { .. } => "biscuit_block_context",
        Op::Print { .. } => "biscuit_print",
        Op::PrintBlockSource { .. } => "biscuit_print_block_source",
        Op::CreateBlock => "create_block",
        Op::BlkSetContext { .. } => "block_builder_set_context",
        Op::BlkAdd { item, .. } => match item {
            Item::Fact => "block_builder_add_fact",
            Item::Rule => "block_builder_add_rule",
            _ => "block_builder_add_check",
        },
        Op::AppendBlock { .. } => "biscuit_append_block",
        Op::BiscuitAuthorizer { .. } => "biscuit_authorizer",
        Op::AbNew => "authorizer_builder",
        Op::AbAdd { item, .. } => match item {
            Item::Fact => "authorizer_builder_add_fact",
            Item::Rule => "authorizer_builder_add_rule",
            Item::Check => "authorizer_builder_add_check",
            Item::Policy => "authorizer_builder_add_policy",
        },
        Op::AbBuild { .. } => "authorizer_builder_build",
        Op::AbBuildUnauthenticated { .. } => "authorizer_builder_build_unauthenticated",
        Op::Authorize { .. } => "authorizer_authorize",
        Op::AuthorizerPrint { .. } => "authorizer_print",
        Op::ErrorProbe { .. } => "error_probe",
        Op::Free { .. } => "free",
    }
}

// ---------------------------------------------------------------------------------------------
// child: interpreter
// ---------------------------------------------------------------------------------------------

/// names of the C error kinds in declaration order (pinned at design time)
const KIND_NAMES: &[&str] = &[
    "None", "InvalidArgument", "InternalError", "FormatSignatureInvalidFormat", "FormatSignatureInvalidSignature", "FormatSealedSignature", "FormatEmptyKeys", "FormatUnknownPublicKey",
    "FormatDeserializationError", "FormatSerializationError", "FormatBlockDeserializationError", "FormatBlockSerializationError", "FormatVersion", "FormatInvalidBlockId",
    "FormatExistingPublicKey", "FormatSymbolTableOverlap", "FormatPublicKeyTableOverlap", "FormatUnknownExternalKey", "FormatUnknownSymbol", "AppendOnSealed", "LogicInvalidBlockRule",
    "LogicUnauthorized", "LogicAuthorizerNotEmpty", "LogicNoMatchingPolicy", "LanguageError", "TooManyFacts", "TooManyIterations", "Timeout", "ConversionError", "FormatInvalidKeySize",
    "FormatInvalidSignatureSize", "FormatInvalidKey", "FormatSignatureDeserializationError", "FormatBlockSignatureDeserializationError", "FormatSignatureInvalidSignatureGeneration", "AlreadySealed",
    "Execution", "UnexpectedQueryResult", "FormatPKCS8",
];

#[derive(Debug, Clone)]
enum MErr {
    InvalidArgument,
    Token(error::Token),
}

/// expected kind name, derived from the shape of the Rust error value
fn kind_name(e: &MErr) -> String {
    let t = match e {
        MErr::InvalidArgument => return "InvalidArgument".into(),
        MErr::Token(t) => t,
    };
    let dbg = format!("{:?}", t);
    let mut path: Vec<String> = vec![];
    let mut rest = dbg.as_str();
    loop {
        let ident: String = rest.chars().take_while(|c| c.is_ascii_alphanumeric()).collect();
        if ident.is_empty() || !ident.chars().next().unwrap().is_ascii_uppercase() {
            break;
        }
        path.push(ident.clone());
        rest = &rest[ident.len()..];
        if let Some(r) = rest.strip_prefix('(') {
            rest = r;
        } else {
            break;
        }
        let max = match path[0].as_str() {
            "Format" => {
                if path.len() >= 2 && path[1] == "Signature" {
                    3
                } else {
                    2
                }
            }
            "FailedLogic" | "RunLimit" => 2,
            _ => 1,
        };
        if path.len() >= max {
            break;
        }
    }
    match path[0].as_str() {
        "FailedLogic" => format!("Logic{}", path.get(1).cloned().unwrap_or_default()),
        "RunLimit" => path.get(1).cloned().unwrap_or_default(),
        "Language" => "LanguageError".into(),
        "Base64" => "FormatDeserializationError".into(),
        _ => path.concat(),
    }
}

fn failed_checks(e: &MErr) -> Option<&Vec<error::FailedCheck>> {
    match e {
        MErr::Token(error::Token::FailedLogic(error::Logic::Unauthorized { checks, .. })) => Some(checks),
        MErr::Token(error::Token::FailedLogic(error::Logic::NoMatchingPolicy { checks })) => Some(checks),
        _ => None,
    }
}

struct Exec {
    kps: Vec<(Box<c::KeyPair>, biscuit_auth::KeyPair)>,
    pks: Vec<(Box<c::PublicKey>, biscuit_auth::PublicKey)>,
    bbs: Vec<(Box<c::BiscuitBuilder>, b::BiscuitBuilder)>,
    blks: Vec<(Box<c::BlockBuilder>, b::BlockBuilder)>,
    toks: Vec<(Box<c::Biscuit>, biscuit_auth::Biscuit)>,
    abs: Vec<(Box<c::AuthorizerBuilder>, b::AuthorizerBuilder)>,
    auths: Vec<(Box<c::Authorizer>, biscuit_auth::Authorizer)>,
    last: Option<MErr>,
    mism: Vec<(String, String)>,
    events: Vec<&'static str>,
}

fn idx(h: H, len: usize) -> Option<usize> {
    match h {
        None => None,
        Some(r) => {
            if len == 0 {
                None
            } else {
                Some((r as usize * len) >> 16)
            }
        }
    }
}

fn seed32(seed: u8) -> [u8; 32] {
    let mut s = [seed; 32];
    s[0] = 0xc1;
    s[1] = 0x9;
    s
}

fn cstring(t: &Txt) -> CString {
    match t {
        Txt::Utf8(s) => CString::new(s.replace('\0', "")).unwrap(),
        Txt::Raw(b) => CString::new(b.iter().cloned().filter(|x| *x != 0).collect::<Vec<u8>>()).unwrap(),
    }
}
fn as_str(t: &Txt) -> Option<String> {
    match t {
        Txt::Utf8(s) => Some(s.replace('\0', "")),
        Txt::Raw(b) => String::from_utf8(b.iter().cloned().filter(|x| *x != 0).collect()).ok(),
    }
}

unsafe fn take_string(p: *const c_char) -> Option<String> {
    if p.is_null() {
        None
    } else {
        let s = CStr::from_ptr(p).to_string_lossy().to_string();
        c::string_free(p as *mut c_char);
        Some(s)
    }
}
unsafe fn peek_string(p: *const c_char) -> Option<String> {
    if p.is_null() {
        None
    } else {
        Some(CStr::from_ptr(p).to_string_lossy().to_string())
    }
}

const CANARY: u8 = 0xA5;
const PAD: usize = 32;

struct Buf {
    v: Vec<u8>,
    size: usize,
}
impl Buf {
    fn new(size: usize) -> Buf {
        Buf { v: vec![CANARY; size + 2 * PAD], size }
    }
    fn ptr(&mut self) -> *mut u8 {
        unsafe { self.v.as_mut_ptr().add(PAD) }
    }
    fn canaries_ok(&self) -> bool {
        self.v[..PAD].iter().all(|b| *b == CANARY) && self.v[PAD + self.size..].iter().all(|b| *b == CANARY)
    }
    fn data(&self, n: usize) -> &[u8] {
        &self.v[PAD..PAD + n.min(self.size)]
    }
}

impl Exec {
    fn new() -> Exec {
        Exec {
            kps: vec![],
            pks: vec![],
            bbs: vec![],
            blks: vec![],
            toks: vec![],
            abs: vec![],
            auths: vec![],
            last: None,
            mism: vec![],
            events: vec![],
        }
    }

    fn mismatch(&mut self, aspect: &str, detail: String) {
        self.mism.push((aspect.to_string(), detail));
    }

    /// after a failing call: the error channel reports the model's error
    fn failed(&mut self, e: MErr) {
        self.last = Some(e);
        self.events.push("failure");
        self.compare_error(None);
    }

    /// compare the whole error_* family with the model's last error
    fn compare_error(&mut self, extra_index: Option<u64>) {
        let kind = c::error_kind() as u32 as usize;
        let kind = KIND_NAMES.get(kind).copied().unwrap_or("?");
        let msg = unsafe { peek_string(c::error_message()) };
        let (exp_kind, exp_msg) = match &self.last {
            None => ("None".to_string(), None),
            Some(e) => (
                kind_name(e),
                Some(match e {
                    MErr::InvalidArgument => "invalid argument".to_string(),
                    MErr::Token(t) => t.to_string(),
                }),
            ),
        };
        if kind != exp_kind {
            self.mismatch("error_kind", format!("C reports {kind}, the Rust operation failed with {exp_kind} ({:?})", self.last));
        }
        // a message with an interior NUL cannot cross the boundary
        if matches!(self.last, Some(MErr::InvalidArgument)) {
            // no Rust operation stands behind an invalid argument: the wording belongs to the C
            // API, only its presence is required
            if msg.as_deref().map(|m| m.is_empty()).unwrap_or(true) {
                self.mismatch("error_message", "no message for an invalid argument".to_string());
            }
        } else if msg != exp_msg && !exp_msg.as_deref().map(|m| m.contains('\0')).unwrap_or(false) {
            self.mismatch("error_message", format!("C reports {msg:?}, Rust {exp_msg:?}"));
        }
        let checks: Vec<error::FailedCheck> = self.last.as_ref().and_then(failed_checks).cloned().unwrap_or_default();
        let count = c::error_check_count();
        if count != checks.len() as u64 {
            self.mismatch("error_check_count", format!("C {count}, Rust {}", checks.len()));
        }
        let n = checks.len() as u64;
        let mut indices: Vec<u64> = (0..=n + 1).collect();
        indices.extend([u64::MAX, u64::MAX - 1, u32::MAX as u64 + 1]);
        indices.extend(extra_index);
        for i in indices {
            let (e_id, e_block, e_rule, e_auth) = match checks.get(i as usize).filter(|_| i < n) {
                Some(error::FailedCheck::Block(bc)) => (bc.check_id as u64, bc.block_id as u64, Some(bc.rule.clone()), false),
                Some(error::FailedCheck::Authorizer(ac)) => (ac.check_id as u64, u64::MAX, Some(ac.rule.clone()), true),
                None => (u64::MAX, u64::MAX, None, false),
            };
            let id = c::error_check_id(i);
            let block = c::error_check_block_id(i);
            let rule = unsafe { peek_string(c::error_check_rule(i)) };
            let auth = c::error_check_is_authorizer(i);
            if id != e_id {
                self.mismatch("error_check_id", format!("index {i} of {n}: C {id}, Rust {e_id}"));
            }
            if block != e_block {
                self.mismatch("error_check_block_id", format!("index {i} of {n}: C {block}, Rust {e_block}"));
            }
            if rule != e_rule {
                self.mismatch("error_check_rule", format!("index {i} of {n}: C {rule:?}, Rust {e_rule:?}"));
            }
            if auth != e_auth {
                self.mismatch("error_check_is_authorizer", format!("index {i} of {n}: C {auth}, Rust {e_auth}"));
            }
        }
        if n > 0 {
            self.events.push("failed_checks_compared");
        }
    }

    fn alg(a: Alg) -> (c::SignatureAlgorithm, b::Algorithm) {
        match a {
            Alg::Ed => (c::SignatureAlgorithm::Ed25519, b::Algorithm::Ed25519),
            Alg::P256 => (c::SignatureAlgorithm::Secp256r1, b::Algorithm::Secp256r1),
        }
    }

    fn token_bytes(&self, src: &BytesSrc) -> Vec<u8> {
        match src {
            BytesSrc::Random(v) => v.clone(),
            BytesSrc::Token { t, sealed, flips, truncate } => {
                let Some(i) = idx(*t, self.toks.len()) else { return vec![] };
                let tok = &self.toks[i].1;
                let mut bytes = if *sealed { tok.seal().and_then(|s| s.to_vec()).unwrap_or_default() } else { tok.to_vec().unwrap_or_default() };
                for (pos, bit) in flips {
                    if !bytes.is_empty() {
                        let p = (*pos as usize * bytes.len()) >> 16;
                        bytes[p] ^= 1 << (bit % 8);
                    }
                }
                if let Some(tr) = truncate {
                    let p = (*tr as usize * (bytes.len() + 1)) >> 16;
                    bytes.truncate(p);
                }
                bytes
            }
        }
    }

    /// generic "add a text item to a builder" comparison
    fn add_result(&mut self, c_ok: bool, utf8: bool, model: Option<Result<(), error::Token>>) {
        // model == None: NULL builder
        let expected = match (&model, utf8) {
            (None, _) => Err(MErr::InvalidArgument),
            (Some(_), false) => Err(MErr::InvalidArgument),
            (Some(Ok(())), true) => Ok(()),
            (Some(Err(e)), true) => Err(MErr::Token(e.clone())),
        };
        if c_ok != expected.is_ok() {
            self.mismatch("result", format!("C returned {c_ok}, Rust {:?}", expected));
        }
        if let Err(e) = expected {
            if !c_ok {
                self.failed(e);
            } else {
                self.last = self.last.take();
            }
        }
    }

    unsafe fn step(&mut self, op: &Op) {
        match op {
            Op::KeyPairNew { seed, seed_len, alg } => {
                let s = seed32(*seed);
                let len = *seed_len as usize;
                let mut buf = vec![0u8; len.max(32)];
                buf[..32].copy_from_slice(&s);
                let (ca, ra) = Self::alg(*alg);
                let r = c::key_pair_new(buf.as_ptr(), len, ca);
                if len == 32 {
                    let mut rng: StdRng = SeedableRng::from_seed(s);
                    let m = biscuit_auth::KeyPair::new_with_rng(ra, &mut rng);
                    match r {
                        Some(k) => self.kps.push((k, m)),
                        None => self.mismatch("result", "NULL for a 32-byte seed".into()),
                    }
                } else {
                    if r.is_some() {
                        self.mismatch("result", format!("a key pair for a seed of {len} bytes"));
                    }
                    self.failed(MErr::InvalidArgument);
                }
            }
            Op::KeyPairPublic { kp } => {
                let i = idx(*kp, self.kps.len());
                let r = c::key_pair_public(i.map(|i| &*self.kps[i].0));
                match (i, r) {
                    (Some(i), Some(p)) => {
                        let m = self.kps[i].1.public();
                        self.pks.push((p, m));
                    }
                    (None, None) => self.failed(MErr::InvalidArgument),
                    (i, r) => self.mismatch("result", format!("handle {:?} -> {}", i, r.is_some())),
                }
            }
            Op::KeyPairSerialize { kp } => {
                let i = idx(*kp, self.kps.len());
                let mut buf = Buf::new(32);
                let n = c::key_pair_serialize(i.map(|i| &*self.kps[i].0), buf.ptr());
                if !buf.canaries_ok() {
                    self.mismatch("canary", "wrote outside the 32-byte buffer".into());
                }
                match i {
                    Some(i) => {
                        let m = self.kps[i].1.private().to_bytes();
                        if n != m.len() || buf.data(n) != &m[..] {
                            self.mismatch("bytes", format!("C wrote {n} bytes {}, Rust private key is {}", hex::encode(buf.data(n)), hex::encode(&m[..])));
                        }
                        self.events.push("key_serialized");
                    }
                    None => {
                        if n != 0 {
                            self.mismatch("result", format!("{n} for NULL"));
                        }
                        self.failed(MErr::InvalidArgument);
                    }
                }
            }
            Op::KeyPairDeserialize { from, random, alg } => {
                let mut bytes = match (random, idx(*from, self.kps.len())) {
                    (Some(r), _) => r.clone(),
                    (None, Some(i)) => self.kps[i].1.private().to_bytes().to_vec(),
                    (None, None) => vec![7u8; 32],
                };
                bytes.resize(32, 0);
                let (ca, ra) = Self::alg(*alg);
                let r = c::key_pair_deserialize(bytes.as_mut_ptr(), ca);
                let m = biscuit_auth::PrivateKey::from_bytes(&bytes, ra).map(|p| biscuit_auth::KeyPair::from(&p));
                match (r, m) {
                    (Some(k), Ok(m)) => self.kps.push((k, m)),
                    (None, Err(_)) => self.failed(MErr::InvalidArgument),
                    (r, m) => self.mismatch("result", format!("C {} Rust {}", r.is_some(), m.is_ok())),
                }
            }
            Op::PublicKeySerialize { pk } => {
                let i = idx(*pk, self.pks.len());
                let mut buf = Buf::new(32);
                let n = c::public_key_serialize(i.map(|i| &*self.pks[i].0), buf.ptr());
                if !buf.canaries_ok() {
                    self.mismatch("canary", "wrote outside the 32-byte buffer".into());
                }
                match i {
                    Some(i) => {
                        let m = self.pks[i].1.to_bytes();
                        if m.len() <= 32 {
                            if n != m.len() || buf.data(n) != &m[..] {
                                self.mismatch("bytes", format!("C wrote {n} bytes, Rust key is {}", hex::encode(&m)));
                            }
                            self.events.push("key_serialized");
                        } else {
                            // the documented buffer cannot hold the key: the only acceptable
                            // answers are an error, or (never) a larger announced size
                            self.mismatch("unrepresentable", format!("a {}-byte public key has no serialization through the 32-byte buffer API (C returned {n})", m.len()));
                            if n == 0 {
                                self.failed(MErr::InvalidArgument);
                            }
                        }
                    }
                    None => {
                        if n != 0 {
                            self.mismatch("result", format!("{n} for NULL"));
                        }
                        self.failed(MErr::InvalidArgument);
                    }
                }
            }
            Op::PublicKeyDeserialize { from, random, alg } => {
                let (ca, ra) = Self::alg(*alg);
                let src = match (random, idx(*from, self.pks.len())) {
                    (Some(r), _) => r.clone(),
                    (None, Some(i)) => self.pks[i].1.to_bytes(),
                    (None, None) => vec![9u8; 32],
                };
                let mut bytes = src.clone();
                bytes.resize(32, 0);
                let r = c::public_key_deserialize(bytes.as_mut_ptr(), ca);
                // the C function can only see 32 bytes
                let m = biscuit_auth::PublicKey::from_bytes(&bytes, ra);
                match (r, m) {
                    (Some(k), Ok(m)) => self.pks.push((k, m)),
                    (None, Err(_)) => self.failed(MErr::InvalidArgument),
                    (r, m) => self.mismatch("result", format!("C {} Rust {}", r.is_some(), m.is_ok())),
                }
            }
            Op::BiscuitBuilderNew => match c::biscuit_builder() {
                Some(x) => self.bbs.push((x, biscuit_auth::Biscuit::builder())),
                None => self.mismatch("result", "NULL builder".into()),
            },
            Op::BbSetContext { bb, s } => {
                let i = idx(*bb, self.bbs.len());
                let cs = cstring(s);
                let ok = c::biscuit_builder_set_context(i.map(|i| &mut *self.bbs[i].0), cs.as_ptr());
                let utf8 = as_str(s);
                let model = i.map(|i| {
                    if let Some(u) = &utf8 {
                        self.bbs[i].1 = self.bbs[i].1.clone().context(u.clone());
                    }
                    Ok(())
                });
                self.add_result(ok, utf8.is_some(), model);
            }
            Op::BbSetRootKeyId { bb, id } => {
                let i = idx(*bb, self.bbs.len());
                let ok = c::biscuit_builder_set_root_key_id(i.map(|i| &mut *self.bbs[i].0), *id);
                let model = i.map(|i| {
                    self.bbs[i].1 = self.bbs[i].1.clone().root_key_id(*id);
                    Ok(())
                });
                self.add_result(ok, true, model);
            }
            Op::BbAdd { bb, item, s } => {
                let i = idx(*bb, self.bbs.len());
                let cs = cstring(s);
                let h = i.map(|i| &mut *self.bbs[i].0);
                let ok = match item {
                    Item::Fact => c::biscuit_builder_add_fact(h, cs.as_ptr()),
                    Item::Rule => c::biscuit_builder_add_rule(h, cs.as_ptr()),
                    _ => c::biscuit_builder_add_check(h, cs.as_ptr()),
                };
                let utf8 = as_str(s);
                let model = i.map(|i| match &utf8 {
                    None => Ok(()),
                    Some(u) => {
                        let cur = self.bbs[i].1.clone();
                        let r = match item {
                            Item::Fact => cur.fact(u.as_str()),
                            Item::Rule => cur.rule(u.as_str()),
                            _ => cur.check(u.as_str()),
                        };
                        r.map(|nb| {
                            self.bbs[i].1 = nb;
                        })
                    }
                });
                self.events.push("builder_item");
                self.add_result(ok, utf8.is_some(), model);
            }
            Op::BbBuild { bb, kp, seed, seed_len } => {
                let bi = idx(*bb, self.bbs.len());
                let ki = idx(*kp, self.kps.len());
                let s = seed32(*seed);
                let len = *seed_len as usize;
                let mut buf = vec![0u8; len.max(32)];
                buf[..32].copy_from_slice(&s);
                let r = c::biscuit_builder_build(bi.map(|i| &*self.bbs[i].0), ki.map(|i| &*self.kps[i].0), buf.as_ptr(), len);
                let model: Result<biscuit_auth::Biscuit, MErr> = match (bi, ki, len == 32) {
                    (Some(b_), Some(k_), true) => {
                        let mut rng: StdRng = SeedableRng::from_seed(s);
                        self.bbs[b_].1.clone().build_with_rng(&self.kps[k_].1, biscuit_auth::datalog::SymbolTable::default(), &mut rng).map_err(MErr::Token)
                    }
                    _ => Err(MErr::InvalidArgument),
                };
                match (r, model) {
                    (Some(t), Ok(m)) => {
                        self.events.push("token_built");
                        self.toks.push((t, m));
                        self.compare_token(self.toks.len() - 1);
                    }
                    (None, Err(e)) => self.failed(e),
                    (r, m) => self.mismatch("result", format!("C {} Rust {:?}", r.is_some(), m.map(|_| ()))),
                }
            }
            Op::BiscuitFrom { src, root } => {
                let bytes = self.token_bytes(src);
                let ri = idx(*root, self.pks.len());
                let r = c::biscuit_from(bytes.as_ptr(), bytes.len(), ri.map(|i| &*self.pks[i].0));
                let model = match ri {
                    Some(i) => biscuit_auth::Biscuit::from(&bytes, self.pks[i].1).map_err(MErr::Token),
                    None => Err(MErr::InvalidArgument),
                };
                match (r, model) {
                    (Some(t), Ok(m)) => {
                        self.events.push("token_parsed");
                        self.toks.push((t, m));
                        self.compare_token(self.toks.len() - 1);
                    }
                    (None, Err(e)) => self.failed(e),
                    (r, m) => self.mismatch("result", format!("C {} Rust {:?}", r.is_some(), m.map(|_| ()))),
                }
            }
            Op::SerializedSize { t } | Op::SealedSize { t } => {
                let sealed = matches!(op, Op::SealedSize { .. });
                let i = idx(*t, self.toks.len());
                let h = i.map(|i| &*self.toks[i].0);
                let n = if sealed { c::biscuit_sealed_size(h) } else { c::biscuit_serialized_size(h) };
                match i {
                    Some(i) => {
                        let m = if sealed { self.toks[i].1.seal().and_then(|s| s.to_vec()) } else { self.toks[i].1.to_vec() };
                        match m {
                            Ok(v) => {
                                if n != v.len() {
                                    self.mismatch("size", format!("C announces {n}, the Rust serialization has {} bytes", v.len()));
                                }
                            }
                            Err(e) => {
                                if n != 0 {
                                    self.mismatch("size", format!("C announces {n}, Rust fails with {e:?}"));
                                } else {
                                    self.failed(MErr::Token(e));
                                }
                            }
                        }
                    }
                    None => {
                        if n != 0 {
                            self.mismatch("result", format!("{n} for NULL"));
                        }
                        self.failed(MErr::InvalidArgument);
                    }
                }
            }
            Op::Serialize { t } | Op::SerializeSealed { t } => {
                let sealed = matches!(op, Op::SerializeSealed { .. });
                let i = idx(*t, self.toks.len());
                self.serialize(i, sealed);
            }
            Op::BlockCount { t } => {
                let i = idx(*t, self.toks.len());
                let n = c::biscuit_block_count(i.map(|i| &*self.toks[i].0));
                match i {
                    Some(i) => {
                        if n != self.toks[i].1.block_count() {
                            self.mismatch("result", format!("C {n}, Rust {}", self.toks[i].1.block_count()));
                        }
                    }
                    None => {
                        if n != 0 {
                            self.mismatch("result", format!("{n} for NULL"));
                        }
                        self.failed(MErr::InvalidArgument);
                    }
                }
            }
            Op::BlockContext { t, i: bi } => {
                let i = idx(*t, self.toks.len());
                let r = take_string(c::biscuit_block_context(i.map(|i| &*self.toks[i].0), *bi));
                match i {
                    Some(i) => {
                        let ctx = self.toks[i].1.context();
                        match ctx.get(*bi as usize) {
                            Some(m) => {
                                let m = m.clone().filter(|s| !s.contains('\0'));
                                if r != m {
                                    self.mismatch("result", format!("context of block {bi}: C {r:?}, Rust {m:?}"));
                                }
                            }
                            None => {
                                if r.is_some() {
                                    self.mismatch("result", format!("context {r:?} for block {bi} of {}", ctx.len()));
                                }
                                self.failed(MErr::Token(error::Token::Format(error::Format::InvalidBlockId(*bi as usize))));
                            }
                        }
                    }
                    None => {
                        if r.is_some() {
                            self.mismatch("result", "a string for NULL".into());
                        }
                        self.failed(MErr::InvalidArgument);
                    }
                }
            }
            Op::Print { t } => {
                let i = idx(*t, self.toks.len());
                let r = take_string(c::biscuit_print(i.map(|i| &*self.toks[i].0)));
                match i {
                    Some(i) => {
                        let m = self.toks[i].1.print();
                        if r.as_deref() != Some(m.as_str()) && !m.contains('\0') {
                            self.mismatch("result", format!("print: C {r:?}, Rust {m:?}"));
                        }
                    }
                    None => {
                        if r.is_some() {
                            self.mismatch("result", "a string for NULL".into());
                        }
                        self.failed(MErr::InvalidArgument);
                    }
                }
            }
            Op::PrintBlockSource { t, i: bi } => {
                let i = idx(*t, self.toks.len());
                let r = take_string(c::biscuit_print_block_source(i.map(|i| &*self.toks[i].0), *bi));
                match i {
                    Some(i) => match self.toks[i].1.print_block_source(*bi as usize) {
                        Ok(m) => {
                            if r.as_deref() != Some(m.as_str()) && !m.contains('\0') {
                                self.mismatch("result", format!("block source {bi}: C {r:?}, Rust {m:?}"));
                            }
                        }
                        Err(e) => {
                            if r.is_some() {
                                self.mismatch("result", format!("a source for block {bi}, Rust fails with {e:?}"));
                            }
                            self.failed(MErr::Token(e));
                        }
                    },
                    None => {
                        if r.is_some() {
                            self.mismatch("result", "a string for NULL".into());
                        }
                        self.failed(MErr::InvalidArgument);
                    }
                }
            }
            Op::CreateBlock => {
                let x = c::create_block();
                self.blks.push((x, b::BlockBuilder::new()));
            }
            Op::BlkSetContext { blk, s } => {
                let i = idx(*blk, self.blks.len());
                let cs = cstring(s);
                let ok = c::block_builder_set_context(i.map(|i| &mut *self.blks[i].0), cs.as_ptr());
                let utf8 = as_str(s);
                let model = i.map(|i| {
                    if let Some(u) = &utf8 {
                        self.blks[i].1 = self.blks[i].1.clone().context(u.clone());
                    }
                    Ok(())
                });
                self.add_result(ok, utf8.is_some(), model);
            }
            Op::BlkAdd { blk, item, s } => {
                let i = idx(*blk, self.blks.len());
                let cs = cstring(s);
                let h = i.map(|i| &mut *self.blks[i].0);
                let ok = match item {
                    Item::Fact => c::block_builder_add_fact(h, cs.as_ptr()),
                    Item::Rule => c::block_builder_add_rule(h, cs.as_ptr()),
                    _ => c::block_builder_add_check(h, cs.as_ptr()),
                };
                let utf8 = as_str(s);
                let model = i.map(|i| match &utf8 {
                    None => Ok(()),
                    Some(u) => {
                        let cur = self.blks[i].1.clone();
                        let r = match item {
                            Item::Fact => cur.fact(u.as_str()),
                            Item::Rule => cur.rule(u.as_str()),
                            _ => cur.check(u.as_str()),
                        };
                        r.map(|nb| {
                            self.blks[i].1 = nb;
                        })
                    }
                });
                self.events.push("builder_item");
                self.add_result(ok, utf8.is_some(), model);
            }
            Op::AppendBlock { t, blk, kp } => {
                let ti = idx(*t, self.toks.len());
                let bi = idx(*blk, self.blks.len());
                let ki = idx(*kp, self.kps.len());
                let r = c::biscuit_append_block(ti.map(|i| &*self.toks[i].0), bi.map(|i| &*self.blks[i].0), ki.map(|i| &*self.kps[i].0));
                let model = match (ti, bi, ki) {
                    (Some(t_), Some(b_), Some(k_)) => self.toks[t_].1.append_with_keypair(&self.kps[k_].1, self.blks[b_].1.clone()).map_err(MErr::Token),
                    _ => Err(MErr::InvalidArgument),
                };
                match (r, model) {
                    (Some(t), Ok(m)) => {
                        self.events.push("token_appended");
                        self.toks.push((t, m));
                        self.compare_token(self.toks.len() - 1);
                    }
                    (None, Err(e)) => self.failed(e),
                    (r, m) => self.mismatch("result", format!("C {} Rust {:?}", r.is_some(), m.map(|_| ()))),
                }
            }
            Op::BiscuitAuthorizer { t } => {
                let i = idx(*t, self.toks.len());
                let r = c::biscuit_authorizer(i.map(|i| &*self.toks[i].0));
                let model = match i {
                    Some(i) => self.toks[i].1.authorizer().map_err(MErr::Token),
                    None => Err(MErr::InvalidArgument),
                };
                match (r, model) {
                    (Some(a), Ok(m)) => self.auths.push((a, m)),
                    (None, Err(e)) => self.failed(e),
                    (r, m) => self.mismatch("result", format!("C {} Rust {:?}", r.is_some(), m.map(|_| ()))),
                }
            }
            Op::AbNew => match c::authorizer_builder() {
                Some(x) => self.abs.push((x, b::AuthorizerBuilder::new())),
                None => self.mismatch("result", "NULL builder".into()),
            },
            Op::AbAdd { ab, item, s } => {
                let i = idx(*ab, self.abs.len());
                let cs = cstring(s);
                let h = i.map(|i| &mut *self.abs[i].0);
                let ok = match item {
                    Item::Fact => c::authorizer_builder_add_fact(h, cs.as_ptr()),
                    Item::Rule => c::authorizer_builder_add_rule(h, cs.as_ptr()),
                    Item::Check => c::authorizer_builder_add_check(h, cs.as_ptr()),
                    Item::Policy => c::authorizer_builder_add_policy(h, cs.as_ptr()),
                };
                let utf8 = as_str(s);
                let model = i.map(|i| match &utf8 {
                    None => Ok(()),
                    Some(u) => {
                        let cur = self.abs[i].1.clone();
                        let r = match item {
                            Item::Fact => cur.fact(u.as_str()),
                            Item::Rule => cur.rule(u.as_str()),
                            Item::Check => cur.check(u.as_str()),
                            Item::Policy => cur.policy(u.as_str()),
                        };
                        r.map(|nb| {
                            self.abs[i].1 = nb;
                        })
                    }
                });
                self.events.push("builder_item");
                self.add_result(ok, utf8.is_some(), model);
            }
            Op::AbBuild { ab, t } => {
                if self.toks.is_empty() {
                    return;
                }
                let ti = (*t as usize * self.toks.len()) >> 16;
                let ai = idx(*ab, self.abs.len());
                // the builder is consumed by the call
                let (cb, mb) = match ai {
                    Some(i) => {
                        let (cb, mb) = self.abs.remove(i);
                        (Some(cb), Some(mb))
                    }
                    None => (None, None),
                };
                let r = c::authorizer_builder_build(cb, &*self.toks[ti].0);
                let model = match mb {
                    Some(mb) => mb.build(&self.toks[ti].1).map_err(MErr::Token),
                    None => Err(MErr::InvalidArgument),
                };
                match (r, model) {
                    (Some(a), Ok(m)) => {
                        self.events.push("authorizer_built");
                        self.auths.push((a, m));
                    }
                    (None, Err(e)) => self.failed(e),
                    (r, m) => self.mismatch("result", format!("C {} Rust {:?}", r.is_some(), m.map(|_| ()))),
                }
            }
            Op::AbBuildUnauthenticated { ab } => {
                let ai = idx(*ab, self.abs.len());
                let (cb, mb) = match ai {
                    Some(i) => {
                        let (cb, mb) = self.abs.remove(i);
                        (Some(cb), Some(mb))
                    }
                    None => (None, None),
                };
                let r = c::authorizer_builder_build_unauthenticated(cb);
                let model = match mb {
                    Some(mb) => mb.build_unauthenticated().map_err(MErr::Token),
                    None => Err(MErr::InvalidArgument),
                };
                match (r, model) {
                    (Some(a), Ok(m)) => {
                        self.events.push("authorizer_built");
                        self.auths.push((a, m));
                    }
                    (None, Err(e)) => self.failed(e),
                    (r, m) => self.mismatch("result", format!("C {} Rust {:?}", r.is_some(), m.map(|_| ()))),
                }
            }
            Op::Authorize { a } => {
                let i = idx(*a, self.auths.len());
                let ok = c::authorizer_authorize(i.map(|i| &mut *self.auths[i].0));
                match i {
                    Some(i) => {
                        self.events.push("authorized");
                        let m = self.auths[i].1.authorize();
                        if ok != m.is_ok() {
                            self.mismatch("result", format!("C {ok}, Rust {m:?}"));
                        }
                        if let Err(e) = m {
                            if !ok {
                                self.failed(MErr::Token(e));
                            }
                        }
                    }
                    None => {
                        if ok {
                            self.mismatch("result", "true for NULL".into());
                        }
                        self.failed(MErr::InvalidArgument);
                    }
                }
            }
            Op::AuthorizerPrint { a } => {
                let i = idx(*a, self.auths.len());
                let r = take_string(c::authorizer_print(i.map(|i| &mut *self.auths[i].0)));
                match i {
                    Some(i) => {
                        let m = self.auths[i].1.print_world();
                        if r.as_deref() != Some(m.as_str()) && !m.contains('\0') {
                            self.mismatch("result", format!("authorizer_print: C {r:?}, Rust {m:?}"));
                        }
                    }
                    None => {
                        if r.is_some() {
                            self.mismatch("result", "a string for NULL".into());
                        }
                        self.failed(MErr::InvalidArgument);
                    }
                }
            }
            Op::ErrorProbe { i } => self.compare_error(Some(*i)),
            Op::Free { kind, h } => match kind % 7 {
                0 => match idx(*h, self.kps.len()) {
                    Some(i) => c::key_pair_free(Some(self.kps.remove(i).0)),
                    None => c::key_pair_free(None),
                },
                1 => match idx(*h, self.pks.len()) {
                    Some(i) => c::public_key_free(Some(self.pks.remove(i).0)),
                    None => c::public_key_free(None),
                },
                2 => match idx(*h, self.bbs.len()) {
                    Some(i) => c::biscuit_builder_free(Some(self.bbs.remove(i).0)),
                    None => c::biscuit_builder_free(None),
                },
                3 => match idx(*h, self.blks.len()) {
                    Some(i) => c::block_builder_free(Some(self.blks.remove(i).0)),
                    None => c::block_builder_free(None),
                },
                4 => match idx(*h, self.toks.len()) {
                    Some(i) => c::biscuit_free(Some(self.toks.remove(i).0)),
                    None => c::biscuit_free(None),
                },
                5 => match idx(*h, self.abs.len()) {
                    Some(i) => c::authorizer_builder_free(Some(self.abs.remove(i).0)),
                    None => c::authorizer_builder_free(None),
                },
                _ => match idx(*h, self.auths.len()) {
                    Some(i) => c::authorizer_free(Some(self.auths.remove(i).0)),
                    None => {
                        c::authorizer_free(None);
                        c::string_free(std::ptr::null_mut());
                    }
                },
            },
        }
    }

    /// size query, then serialization into a buffer of exactly that size
    unsafe fn serialize(&mut self, i: Option<usize>, sealed: bool) {
        let h = i.map(|i| &*self.toks[i].0);
        let announced = if sealed { c::biscuit_sealed_size(h) } else { c::biscuit_serialized_size(h) };
        let Some(i) = i else {
            let mut buf = Buf::new(16);
            let n = if sealed { c::biscuit_serialize_sealed(None, buf.ptr()) } else { c::biscuit_serialize(None, buf.ptr()) };
            if n != 0 || !buf.canaries_ok() || buf.data(16).iter().any(|b| *b != CANARY) {
                self.mismatch("result", format!("{n} bytes written for NULL"));
            }
            self.failed(MErr::InvalidArgument);
            return;
        };
        let m = if sealed { self.toks[i].1.seal().and_then(|s| s.to_vec()) } else { self.toks[i].1.to_vec() };
        match m {
            Ok(v) => {
                if announced != v.len() {
                    self.mismatch("size", format!("C announces {announced}, the Rust serialization has {} bytes", v.len()));
                }
                // the caller allocates what the API announced
                let mut buf = Buf::new(announced);
                let h = Some(&*self.toks[i].0);
                let n = if sealed { c::biscuit_serialize_sealed(h, buf.ptr()) } else { c::biscuit_serialize(h, buf.ptr()) };
                if !buf.canaries_ok() {
                    self.mismatch("canary", format!("wrote outside the announced {announced} bytes"));
                }
                if n != announced {
                    self.mismatch("size", format!("announced {announced}, wrote {n}"));
                }
                if buf.data(n) != &v[..] {
                    self.mismatch("bytes", format!("serialization differs from the Rust one ({} vs {} bytes)", n, v.len()));
                }
                self.events.push(if sealed { "sealed_serialized" } else { "serialized" });
            }
            Err(e) => {
                // e.g. sealing a sealed token
                let mut buf = Buf::new(announced.max(16));
                let h = Some(&*self.toks[i].0);
                let n = if sealed { c::biscuit_serialize_sealed(h, buf.ptr()) } else { c::biscuit_serialize(h, buf.ptr()) };
                if n != 0 {
                    self.mismatch("result", format!("{n} bytes, Rust fails with {e:?}"));
                }
                self.failed(MErr::Token(e));
            }
        }
    }

    /// a token obtained through the C API is the token the Rust API gives
    unsafe fn compare_token(&mut self, i: usize) {
        let announced = c::biscuit_serialized_size(Some(&*self.toks[i].0));
        let mut buf = Buf::new(announced);
        let n = c::biscuit_serialize(Some(&*self.toks[i].0), buf.ptr());
        let m = self.toks[i].1.to_vec().unwrap_or_default();
        if !buf.canaries_ok() {
            self.mismatch("canary", format!("wrote outside the announced {announced} bytes"));
        }
        if n != announced || announced != m.len() {
            self.mismatch("size", format!("announced {announced}, wrote {n}, Rust {}", m.len()));
        }
        if buf.data(n) != &m[..] {
            // ECDSA signatures made by the library are not deterministic: compare content
            let c_tok = biscuit_auth::UnverifiedBiscuit::from(buf.data(n));
            let same = c_tok.map(|t| t.block_count() == self.toks[i].1.block_count() && (0..t.block_count()).all(|k| t.print_block_source(k).ok() == self.toks[i].1.print_block_source(k).ok())).unwrap_or(false);
            if !same {
                self.mismatch("bytes", "the token differs from the one the Rust API builds".into());
            } else {
                self.events.push("token_bytes_differ_same_content");
            }
        }
    }
}

pub fn worker() {
    vcore::util::install_panic_hook();
    let stdin = std::io::stdin();
    for line in stdin.lock().lines() {
        let Ok(line) = line else { break };
        let Ok(v) = serde_json::from_str::<serde_json::Value>(&line) else { continue };
        let id = v["id"].as_u64().unwrap_or(0);
        let ops: Vec<Op> = match serde_json::from_value(v["ops"].clone()) {
            Ok(o) => o,
            Err(_) => continue,
        };
        // the error channel of the C API is thread-local and cannot be cleared: every sequence
        // gets a fresh thread, so that a case is a function of its sequence only
        let _ = std::thread::Builder::new().stack_size(8 << 20).spawn(move || run_sequence(id, &ops)).unwrap().join();
    }
}

fn run_sequence(id: u64, ops: &[Op]) {
    // no timeouts: authorizations on both sides run under a clock that does not move
    biscuit_auth::verif_hooks::verif_clock::enable();
    let stdout = std::io::stdout();
    {
        let mut ex = Exec::new();
        for (k, op) in ops.iter().enumerate() {
            {
                let mut out = stdout.lock();
                let _ = writeln!(out, "{}", json!({"id": id, "start": k}));
                let _ = out.flush();
            }
            // a panic on the Rust side of the comparison must not look like an abort of the C API
            let r = std::panic::catch_unwind(std::panic::AssertUnwindSafe(|| unsafe { ex.step(op) }));
            if r.is_err() {
                ex.mism.push(("harness-panic".into(), format!("the Rust-side model panicked at step {k} ({})", op_name(op))));
            }
            if !ex.mism.is_empty() {
                let mut out = stdout.lock();
                let ms: Vec<_> = ex.mism.drain(..).collect();
                let _ = writeln!(out, "{}", json!({"id": id, "step": k, "op": op_name(op), "mismatches": ms}));
                let _ = out.flush();
            }
        }
        let mut out = stdout.lock();
        let _ = writeln!(out, "{}", json!({"id": id, "done": true, "events": ex.events}));
        let _ = out.flush();
        // handles are dropped here, through Rust's Drop (the *_free functions are no-ops over Box)
    }
}

// ---------------------------------------------------------------------------------------------
// parent: generators
// ---------------------------------------------------------------------------------------------

const FACTS: &[&str] = &[
    "right(\"file1\", \"read\")", "right(\"file2\", \"write\")", "user(1)", "user(7)", "resource(\"file1\")", "operation(\"read\")", "time(2020-01-01T00:00:00Z)",
    "a([1, 2], {\"k\": 1}, hex:00ff, true, null)", "x({1, 2})", "s(\"é\\\"q\")",
    // invalid
    "right(", "right($x)", "", "f(1);;", "é(1)", "f(1) <- g(1)",
];
const RULES: &[&str] = &[
    "can($u, $r) <- user($u), right($r, \"read\")", "r($x) <- user($x), $x > 0", "r($x) <- user($x) trusting previous", "big($x) <- user($x), $x * 9223372036854775807 > 0",
    // invalid
    "r($y) <- user($x)", "r($x) <-", "garbage", "r($x) <- user($x) trusting ed25519/00",
];
const CHECKS: &[&str] = &[
    "check if user(1)", "check if resource(\"file1\")", "check if operation(\"write\")", "check all user($u), $u > 5", "reject if user(1)", "check if false", "check if true",
    "check if 1 / 0 == 1", "check if right($f, \"read\"), $f.starts_with(\"file\")", "check if user($u) or operation($o)", "check if can($u, $r)",
    // invalid
    "check if", "check user(1)", "check if user($u) trusting ed25519/00", "allow if true",
];
const POLICIES: &[&str] = &[
    "allow if true", "deny if true", "allow if user(1)", "deny if operation(\"read\")", "allow if false", "allow if can($u, $r)", "allow if 1 / 0 == 1",
    // invalid
    "allow", "permit if true", "check if true",
];

fn gen_txt(t: &mut Tape, item: Item) -> Txt {
    if t.chance(1, 25) {
        return Txt::Raw(vec![0x66, 0xff, 0xfe, 0x28, 0x31, 0x29]);
    }
    let pool = match item {
        Item::Fact => FACTS,
        Item::Rule => RULES,
        Item::Check => CHECKS,
        Item::Policy => POLICIES,
    };
    if t.chance(1, 12) {
        // an item of another kind
        let other = *t.choose(&[FACTS, RULES, CHECKS, POLICIES]);
        return Txt::Utf8(t.choose(other).to_string());
    }
    Txt::Utf8(t.choose(pool).to_string())
}

fn gen_h(t: &mut Tape) -> H {
    if t.chance(1, 14) {
        None
    } else {
        Some(t.raw())
    }
}
fn gen_alg(t: &mut Tape) -> Alg {
    if t.chance(1, 3) {
        Alg::P256
    } else {
        Alg::Ed
    }
}
fn gen_seed_len(t: &mut Tape) -> u8 {
    if t.chance(1, 12) {
        *t.choose(&[0u8, 1, 31, 33, 64])
    } else {
        32
    }
}
fn gen_index(t: &mut Tape) -> u32 {
    *t.choose(&[0u32, 0, 1, 1, 2, 3, 4, 100, u32::MAX])
}

fn gen_random_op(t: &mut Tape) -> Op {
    match t.weighted(&[3, 2, 2, 2, 2, 2, 2, 1, 1, 4, 3, 3, 1, 2, 3, 4, 1, 2, 2, 2, 2, 1, 4, 3, 2, 2, 4, 3, 1, 5, 2, 3, 2]) {
        0 => Op::KeyPairNew { seed: t.pick(6) as u8, seed_len: gen_seed_len(t), alg: gen_alg(t) },
        1 => Op::KeyPairPublic { kp: gen_h(t) },
        2 => Op::KeyPairSerialize { kp: gen_h(t) },
        3 => Op::KeyPairDeserialize { from: gen_h(t), random: if t.chance(1, 4) { Some(t.bytes(32)) } else { None }, alg: gen_alg(t) },
        4 => Op::PublicKeySerialize { pk: gen_h(t) },
        5 => Op::PublicKeyDeserialize { from: gen_h(t), random: if t.chance(1, 4) { Some(t.bytes(32)) } else { None }, alg: gen_alg(t) },
        6 => Op::BiscuitBuilderNew,
        7 => Op::BbSetContext { bb: gen_h(t), s: if t.chance(1, 10) { Txt::Raw(vec![0xff, 0x41]) } else { Txt::Utf8(t.choose(&["ctx", "", "é", "a b"]).to_string()) } },
        8 => Op::BbSetRootKeyId { bb: gen_h(t), id: *t.choose(&[0u32, 1, 7, u32::MAX]) },
        9 => {
            let item = *t.choose(&[Item::Fact, Item::Fact, Item::Rule, Item::Check, Item::Check]);
            Op::BbAdd { bb: gen_h(t), item, s: gen_txt(t, item) }
        }
        10 => Op::BbBuild { bb: gen_h(t), kp: gen_h(t), seed: t.pick(6) as u8, seed_len: gen_seed_len(t) },
        11 => Op::BiscuitFrom {
            src: if t.chance(1, 6) {
                BytesSrc::Random(t.bytes(60))
            } else {
                BytesSrc::Token {
                    t: gen_h(t),
                    sealed: t.chance(1, 3),
                    flips: if t.chance(1, 3) { vec![(t.raw(), t.raw() as u8)] } else { vec![] },
                    truncate: if t.chance(1, 8) { Some(t.raw()) } else { None },
                }
            },
            root: gen_h(t),
        },
        12 => Op::SerializedSize { t: gen_h(t) },
        13 => Op::SealedSize { t: gen_h(t) },
        14 => Op::Serialize { t: gen_h(t) },
        15 => Op::SerializeSealed { t: gen_h(t) },
        16 => Op::BlockCount { t: gen_h(t) },
        17 => Op::BlockContext { t: gen_h(t), i: gen_index(t) },
        18 => Op::Print { t: gen_h(t) },
        19 => Op::PrintBlockSource { t: gen_h(t), i: gen_index(t) },
        20 => Op::CreateBlock,
        21 => Op::BlkSetContext { blk: gen_h(t), s: Txt::Utf8(t.choose(&["blockctx", ""]).to_string()) },
        22 => {
            let item = *t.choose(&[Item::Fact, Item::Rule, Item::Check, Item::Check]);
            Op::BlkAdd { blk: gen_h(t), item, s: gen_txt(t, item) }
        }
        23 => Op::AppendBlock { t: gen_h(t), blk: gen_h(t), kp: gen_h(t) },
        24 => Op::BiscuitAuthorizer { t: gen_h(t) },
        25 => Op::AbNew,
        26 => {
            let item = *t.choose(&[Item::Fact, Item::Rule, Item::Check, Item::Policy, Item::Policy]);
            Op::AbAdd { ab: gen_h(t), item, s: gen_txt(t, item) }
        }
        27 => Op::AbBuild { ab: gen_h(t), t: t.raw() },
        28 => Op::AbBuildUnauthenticated { ab: gen_h(t) },
        29 => Op::Authorize { a: gen_h(t) },
        30 => Op::AuthorizerPrint { a: gen_h(t) },
        31 => Op::ErrorProbe { i: *t.choose(&[0u64, 1, 2, 3, u64::MAX, 1 << 32]) },
        _ => Op::Free { kind: t.pick(7) as u8, h: gen_h(t) },
    }
}

const LAST: H = Some(u16::MAX);

/// a scripted prefix that reaches deep states, followed by random operations
pub fn gen_seq(t: &mut Tape) -> Vec<Op> {
    let mut ops = vec![];
    if t.chance(5, 6) {
        ops.push(Op::KeyPairNew { seed: t.pick(6) as u8, seed_len: 32, alg: gen_alg(t) });
        ops.push(Op::KeyPairPublic { kp: LAST });
        ops.push(Op::BiscuitBuilderNew);
        for _ in 0..t.range(0, 4) {
            let item = *t.choose(&[Item::Fact, Item::Fact, Item::Rule, Item::Check]);
            ops.push(Op::BbAdd { bb: LAST, item, s: gen_txt(t, item) });
        }
        ops.push(Op::BbBuild { bb: LAST, kp: LAST, seed: t.pick(6) as u8, seed_len: 32 });
        if t.chance(1, 2) {
            ops.push(Op::KeyPairNew { seed: 10 + t.pick(6) as u8, seed_len: 32, alg: gen_alg(t) });
            ops.push(Op::CreateBlock);
            for _ in 0..t.range(0, 3) {
                let item = *t.choose(&[Item::Fact, Item::Rule, Item::Check, Item::Check]);
                ops.push(Op::BlkAdd { blk: LAST, item, s: gen_txt(t, item) });
            }
            ops.push(Op::AppendBlock { t: LAST, blk: LAST, kp: LAST });
        }
        if t.chance(2, 3) {
            ops.push(Op::AbNew);
            for _ in 0..t.range(0, 4) {
                let item = *t.choose(&[Item::Fact, Item::Check, Item::Policy, Item::Policy, Item::Rule]);
                ops.push(Op::AbAdd { ab: LAST, item, s: gen_txt(t, item) });
            }
            ops.push(Op::AbBuild { ab: LAST, t: u16::MAX });
            ops.push(Op::Authorize { a: LAST });
            if t.chance(1, 2) {
                ops.push(Op::ErrorProbe { i: t.pick(4) as u64 });
            }
        }
    }
    for _ in 0..t.range(0, 14) {
        ops.push(gen_random_op(t));
    }
    ops
}

// ---------------------------------------------------------------------------------------------
// parent: driver
// ---------------------------------------------------------------------------------------------

struct Child {
    child: std::process::Child,
    stdin: std::process::ChildStdin,
    rx: mpsc::Receiver<String>,
}

fn spawn_child() -> Child {
    let exe = std::env::current_exe().expect("current exe");
    let mut child = Command::new(exe).arg("--c19-worker").stdin(Stdio::piped()).stdout(Stdio::piped()).stderr(Stdio::null()).spawn().expect("spawn worker");
    let stdin = child.stdin.take().unwrap();
    let stdout = child.stdout.take().unwrap();
    let (tx, rx) = mpsc::channel();
    std::thread::spawn(move || {
        for line in BufReader::new(stdout).lines() {
            match line {
                Ok(l) => {
                    if tx.send(l).is_err() {
                        break;
                    }
                }
                Err(_) => break,
            }
        }
    });
    Child { child, stdin, rx }
}

/// first attempt, among the other sequences of the worker
const WATCHDOG: Duration = Duration::from_secs(30);
/// second attempt, alone in a fresh worker: only a sequence that stays unanswered this long hangs
const LONG_WATCHDOG: Duration = Duration::from_secs(600);

struct Outcome {
    mismatches: Vec<(usize, String, String, String)>, // step, op, aspect, detail
    died_at: Option<(usize, String)>,
    timeout: bool,
    events: Vec<String>,
}

fn submit(c: &mut Child, id: u64, ops: &[Op], watchdog: Duration) -> Outcome {
    let mut out = Outcome { mismatches: vec![], died_at: None, timeout: false, events: vec![] };
    let line = json!({"id": id, "ops": ops}).to_string();
    let mut started: Option<usize> = None;
    if writeln!(c.stdin, "{}", line).is_err() || c.stdin.flush().is_err() {
        let st = c.child.wait().map(|s| format!("{s}")).unwrap_or_default();
        out.died_at = Some((0, st));
        return out;
    }
    loop {
        match c.rx.recv_timeout(watchdog) {
            Ok(l) => {
                let Ok(v) = serde_json::from_str::<serde_json::Value>(&l) else { continue };
                if v["id"].as_u64() != Some(id) {
                    continue;
                }
                if let Some(k) = v["start"].as_u64() {
                    started = Some(k as usize);
                }
                if let Some(ms) = v["mismatches"].as_array() {
                    for m in ms {
                        out.mismatches.push((
                            v["step"].as_u64().unwrap_or(0) as usize,
                            v["op"].as_str().unwrap_or("").to_string(),
                            m[0].as_str().unwrap_or("").to_string(),
                            m[1].as_str().unwrap_or("").to_string(),
                        ));
                    }
                }
                if v["done"].as_bool() == Some(true) {
                    out.events = v["events"].as_array().map(|a| a.iter().filter_map(|x| x.as_str().map(|s| s.to_string())).collect()).unwrap_or_default();
                    return out;
                }
            }
            Err(mpsc::RecvTimeoutError::Timeout) => {
                let _ = c.child.kill();
                let _ = c.child.wait();
                out.timeout = true;
                return out;
            }
            Err(mpsc::RecvTimeoutError::Disconnected) => {
                let st = c.child.wait().map(|s| format!("{s}")).unwrap_or_default();
                out.died_at = Some((started.unwrap_or(0), st));
                return out;
            }
        }
    }
}

pub fn run_seqs(ctx: &Ctx, seqs: Vec<Vec<Op>>) {
    let n = seqs.len();
    let workers = 16usize;
    let chunk = ((n + workers - 1) / workers).max(1);
    let inconclusive = std::sync::atomic::AtomicBool::new(false);
    std::thread::scope(|sc| {
        for (w, part) in seqs.chunks(chunk).enumerate() {
            let inconclusive = &inconclusive;
            sc.spawn(move || {
                let mut child = spawn_child();
                let mut reported: std::collections::HashSet<String> = Default::default();
                for (i, ops) in part.iter().enumerate() {
                    let id = (w * chunk + i) as u64;
                    let mut rep = vcore::runner::Report::default();
                    let mut out = submit(&mut child, id, ops, WATCHDOG);
                    if out.timeout {
                        // a loaded machine is not a hang: second, long attempt alone in a fresh worker
                        rep.class("slow_sequence_second_attempt");
                        child = spawn_child();
                        let mut c2 = spawn_child();
                        out = submit(&mut c2, id, ops, LONG_WATCHDOG);
                        let _ = c2.child.kill();
                        let _ = c2.child.wait();
                    }
                    let mut violations: Vec<(Violation, usize)> = vec![];
                    for (step, op, aspect, detail) in &out.mismatches {
                        violations.push((Violation::new(format!("mismatch:{op}:{aspect}"), format!("step {step} ({op}): {detail}")), *step));
                    }
                    if let Some((step, st)) = &out.died_at {
                        let op = ops.get(*step).map(op_name).unwrap_or("?");
                        violations.push((Violation::new(format!("abort:{op}"), format!("the process died ({st}) in step {step} ({op}): {:?}", ops.get(*step))), *step));
                        child = spawn_child();
                    }
                    if out.timeout {
                        violations.push((Violation::new("hang".to_string(), format!("no answer within {:?} and, alone in a fresh worker, within {:?}", WATCHDOG, LONG_WATCHDOG)), ops.len().saturating_sub(1)));
                    }
                    let state_changes = out.events.iter().filter(|e| matches!(e.as_str(), "builder_item" | "token_built" | "token_appended" | "token_parsed" | "authorizer_built")).count();
                    let observed = out.events.iter().any(|e| matches!(e.as_str(), "serialized" | "sealed_serialized" | "key_serialized" | "authorized"));
                    if state_changes >= 3 && observed {
                        rep.nontrivial(hash64(ops));
                    }
                    for e in out.events.iter().collect::<std::collections::BTreeSet<_>>() {
                        rep.class(format!("event:{e}"));
                    }
                    rep.class(format!("len:{}", (ops.len() / 5) * 5));
                    rep.evals(ops.len() as u64);
                    if i < 2 && w == 0 {
                        rep.sample(json!({"ops": serde_json::to_string(ops).unwrap_or_default().chars().take(600).collect::<String>()}));
                    }
                    ctx.merge(rep);
                    for (vio, step) in violations {
                        if !ctx.tolerate(&vio) && reported.insert(vio.signature.clone()) {
                            // the prefix up to the failing step is the replay
                            let prefix: Vec<Op> = ops[..=step.min(ops.len().saturating_sub(1))].to_vec();
                            ctx.violation("sequence", &vio, &serde_json::to_value(&prefix).unwrap_or_default());
                        }
                    }
                }
                drop(child.stdin);
                let _ = child.child.wait();
            });
        }
    });
    let _ = inconclusive;
}

pub fn run(ctx: &Ctx, replay: Option<&serde_json::Value>) {
    if let Some(r) = replay {
        let ops: Vec<Op> = serde_json::from_value(r["case"].clone()).expect("bad replay case");
        run_seqs(ctx, vec![ops]);
        return;
    }
    ctx.set_rule("call sequences over a handle table (7 handle kinds, 33 operations: keys of both algorithms, the three builders with valid / invalid / non-UTF-8 text, build, parse of valid / mutated / sealed / random bytes, size queries and serialization plain and sealed into canary-guarded buffers of the announced size, block count / context / source with indices past the end, append, authorizers, authorize, print, the error_* family with any index, frees, NULL for every optional handle); a scripted prefix (keys, builder, build, optional append, authorizer, authorize) in 5/6 of the sequences, then 0-14 random operations. oracle: every call is mirrored by the corresponding Rust operation on a twin object: same success, bytes, strings, sizes, error kind (name derived from the Rust error value), error message and failed-check details for every index; bytes written == announced; canaries intact; the child never dies (the parent attributes a death to the started, unacknowledged step). non-trivial = at least 3 state-changing calls and a serialization or an authorization; distinct = hash(sequence)");
    ctx.assume("authorizations run under a virtual clock that does not move (hook H1), so the 1 ms default time limit cannot make the two sides differ");
    ctx.assume("arguments that are undefined behaviour by the C signature (invalid enum values, dangling or double-freed handles, NULL for the non-optional token of authorizer_builder_build, strings without terminator) are not generated");
    let total = match ctx.tier {
        Tier::Quick => 48_000usize,
        Tier::Thorough => 1_000_000,
    };
    let mut seqs = vec![];
    for w in 0..16u64 {
        let seed = derive_seed(ctx.seed, "C19/seqs", w);
        let mut rng = rand_chacha::ChaCha8Rng::from_seed(seed);
        for _ in 0..total / 16 {
            let len = (rng.next_u32() % 400) as usize;
            let data: Vec<u16> = (0..len).map(|_| rng.next_u32() as u16).collect();
            let mut t = Tape::new(data);
            seqs.push(gen_seq(&mut t));
        }
    }
    run_seqs(ctx, seqs);
}
