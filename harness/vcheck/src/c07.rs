//! C07 - third-party blocks are bound to one signer and one position in one token
use crate::c01;
use crate::c04;
use biscuit_auth::builder as b;
use biscuit_auth::format::schema;
use biscuit_auth::{Biscuit, ThirdPartyRequest, UnverifiedBiscuit};
use prost::Message;
use serde::{Deserialize, Serialize};
use serde_json::json;
use vcore::ast::*;
use vcore::gen::*;
use vcore::keys::KeyPlan;
use vcore::mutate::*;
use vcore::refcrypto::*;
use vcore::runner::{Ctx, Report, Violation};
use vcore::tape::{from_tape, Tape};
use vcore::tokens::*;
use vcore::util::{guard, hash64};
use vcore::wire::WToken;

#[derive(Clone, Debug, Serialize, Deserialize, Hash)]
pub struct Case {
    pub a: TokenPlan,
    pub b: TokenPlan,
    /// position in A the block is made for (number of steps already applied)
    pub at: usize,
    pub block: Block,
    pub ext: usize,
    pub next: KeyPlan,
    pub next2: KeyPlan,
    pub attacker: KeyPlan,
    pub after: Option<(Block, KeyPlan)>,
    pub authorizers: Vec<AuthorizerAst>,
    pub params: Vec<u16>,
}

fn v(sig: String, detail: String) -> Violation {
    Violation::new(sig, detail)
}

pub fn gen_case(t: &mut Tape, cfg: &GenCfg) -> Case {
    let mut cfg = cfg.clone();
    cfg.sigs = gen_sig_subset(t);
    let mut a = gen_token_plan(t, &cfg, 3);
    a.seal = false;
    let mut bplan = gen_token_plan_tagged(t, &cfg, 3, 64);
    bplan.seal = false;
    match t.pick(3) {
        0 => {}
        1 => bplan.root = a.root,
        _ => {
            // sibling: common prefix then other steps
            let k = t.pick(a.steps.len() + 1);
            let mut d = a.clone();
            d.steps.truncate(k);
            d.steps.extend(bplan.steps.iter().cloned());
            bplan = d;
        }
    }
    bplan.keys = a.keys.clone();
    let at = t.pick(a.steps.len() + 1);
    let block = gen_block(t, &cfg);
    let ext = t.pick(cfg.n_keys);
    let after = if t.chance(1, 2) { Some((gen_block(t, &cfg), gen_key(t, 130))) } else { None };
    let na = t.range(1, 2);
    let mut authorizers: Vec<AuthorizerAst> = (0..na).map(|_| gen_authorizer(t, &cfg)).collect();
    // an authorizer that looks at the third-party block's facts through its key, and one that
    // looks at them without naming the key
    for scoped in [true, false] {
        if let Some(f) = block.facts.first() {
            authorizers.push(AuthorizerAst {
                block: Block::default(),
                policies: vec![Policy {
                    allow: true,
                    queries: vec![Rule::query(vec![f.clone()], vec![], if scoped { vec![Scope::Key(ext)] } else { vec![] })],
                }],
            });
        }
    }
    Case {
        a,
        b: bplan,
        at,
        block,
        ext,
        next: gen_key(t, 128),
        next2: gen_key(t, 129),
        attacker: gen_key(t, 255),
        after,
        authorizers,
        params: (0..200).map(|_| t.raw()).collect(),
    }
}

fn last_sig(t: &Biscuit) -> Vec<u8> {
    t.revocation_identifiers().last().cloned().unwrap_or_default()
}

pub fn test_case(ctx: &Ctx, case: &Case, rep: &mut Report) -> Result<(), Violation> {
    let tol = |vio: Violation| -> Result<(), Violation> {
        if ctx.tolerate(&vio) {
            Ok(())
        } else {
            Err(vio)
        }
    };
    let pubs = case.a.publics();
    let (hist_a, _) = match guard(|| build_history(&case.a)) {
        Ok(Ok(x)) => x,
        Ok(Err(e)) => return Err(v("api-build-error".into(), format!("{e:?}"))),
        Err(p) => return Err(v(format!("panic:{}", p.site()), p.message)),
    };
    let (hist_b, _) = match guard(|| build_history(&case.b)) {
        Ok(Ok(x)) => x,
        _ => return Err(v("api-build-error".into(), "b".into())),
    };
    let at = case.at.min(hist_a.len() - 1);
    let target = &hist_a[at];
    let ext_kp = case.a.keys[case.ext % case.a.keys.len()].keypair();
    let tp_builder = || case.block.to_builder(&pubs);
    rep.class(format!("position={at}/{}", hist_a.len() - 1));
    rep.class(format!("ext={}", case.a.keys[case.ext % case.a.keys.len()].alg.name()));
    rep.sample(json!({"a": case.a.shape(), "b": case.b.shape(), "at": at, "third_party_block": tp_builder().map(|b| b.to_string()).unwrap_or_default()}));

    // ------------------------------------------------------------------ (a) honest flow
    let req = target.third_party_request().map_err(|e| v("third_party_request-error".into(), format!("{e:?}")))?;
    let req_bytes = req.serialize().map_err(|e| v("request-serialize-error".into(), format!("{e:?}")))?;
    let req2 = ThirdPartyRequest::deserialize(&req_bytes).map_err(|e| v("request-roundtrip-error".into(), format!("{e:?}")))?;
    if req2 != req {
        return Err(v("request-roundtrip-differs".into(), String::new()));
    }
    let req3 = ThirdPartyRequest::deserialize_base64(req.serialize_base64().map_err(|e| v("request-serialize-error".into(), format!("{e:?}")))?)
        .map_err(|e| v("request-base64-roundtrip-error".into(), format!("{e:?}")))?;
    if req3 != req {
        return Err(v("request-roundtrip-differs".into(), "base64".into()));
    }
    // independent reading of the request: it carries exactly the previous signature
    let rq = schema::ThirdPartyBlockRequest::decode(&req_bytes[..]).map_err(|e| v("harness-decode".into(), format!("{e:?}")))?;
    if rq.previous_signature != last_sig(target) || rq.legacy_previous_key.is_some() || !rq.legacy_public_keys.is_empty() {
        tol(v("request-content-wrong".into(), format!("{:?}", rq)))?;
    }
    let tp = match guard(|| req2.create_block(&ext_kp.private(), tp_builder().map_err(|e| format!("{e:?}")).unwrap())) {
        Ok(Ok(x)) => x,
        Ok(Err(e)) => return Err(v("create_block-error".into(), format!("{e:?}"))),
        Err(p) => return Err(v(format!("panic:{}", p.site()), p.message)),
    };
    let tp_bytes = tp.serialize().map_err(|e| v("response-serialize-error".into(), format!("{e:?}")))?;
    let honest = match guard(|| target.append_third_party_with_keypair(ext_kp.public(), tp.clone(), case.next.keypair())) {
        Ok(Ok(x)) => x,
        Ok(Err(e)) => {
            return tol(v("honest-append-refused".into(), format!("{e:?} at {at} of {}", case.a.shape())));
        }
        Err(p) => return Err(v(format!("panic:{}", p.site()), p.message)),
    };
    let honest_bytes = honest.to_vec().map_err(|e| v("to_vec-error".into(), format!("{e:?}")))?;
    let root_a = case.a.root.public();
    if let Err(e) = Biscuit::from(&honest_bytes, root_a) {
        tol(v("honest-token-does-not-verify".into(), format!("{e:?}")))?;
    }
    // RefCrypto: the external signature covers (payload, previous signature)
    {
        let w = WToken::decode(&honest_bytes).map_err(|e| v("harness-decode".into(), e))?;
        let blk = w.blocks.last().unwrap();
        let e = blk.external.as_ref().ok_or_else(|| v("honest-token-has-no-external-signature".into(), String::new()))?;
        let k = RKey::parse(&e.public_key).map_err(|e| v("harness-key".into(), e))?;
        let payload = payload_external_v1(&blk.block, &last_sig(target), 1);
        if k.verify(&payload, &e.signature).is_err() || k != rkey_of(&ext_kp.public()) {
            tol(v(
                "external-signature-does-not-cover-payload-and-previous-signature".into(),
                format!("shape {} at {at}", case.a.shape()),
            ))?;
        }
        if verify_wtoken(&w, &rkey_of(&root_a)).is_err() {
            tol(v("refcrypto-rejects-honest-token".into(), case.a.shape()))?;
        }
    }
    // the unverified path gives the same bytes
    {
        let u = UnverifiedBiscuit::from(target.to_vec().unwrap()).map_err(|e| v("unverified-from-error".into(), format!("{e:?}")))?;
        match guard(|| u.append_third_party_with_keypair(&tp_bytes, case.next.keypair())) {
            Ok(Ok(u2)) => {
                if u2.to_vec().ok() != Some(honest_bytes.clone()) {
                    tol(v("unverified-honest-append-differs".into(), case.a.shape()))?;
                }
            }
            Ok(Err(e)) => tol(v("unverified-honest-append-refused".into(), format!("{e:?}")))?,
            Err(p) => tol(v(format!("panic:{}", p.site()), p.message))?,
        }
    }

    // ------------------------------------------------------------------ (b) replay elsewhere
    let mut replays = 0;
    let targets: Vec<(&str, usize, &Biscuit, biscuit_auth::PublicKey)> = hist_a
        .iter()
        .enumerate()
        .map(|(j, t)| ("same-token-other-position", j, t, root_a))
        .chain(hist_b.iter().enumerate().map(|(j, t)| ("other-token", j, t, case.b.root.public())))
        .collect();
    for (what, j, x, root_x) in targets {
        if last_sig(x) == last_sig(target) {
            continue; // the same token at the same position
        }
        rep.evals(1);
        replays += 1;
        match guard(|| x.append_third_party_with_keypair(ext_kp.public(), tp.clone(), case.next2.keypair())) {
            Ok(Err(_)) => {}
            Ok(Ok(_)) => tol(v(
                format!("replayed-third-party-block-accepted:{what}"),
                format!("block made for position {at} of {} accepted at position {j} ({what}, {})", case.a.shape(), case.b.shape()),
            ))?,
            Err(p) => tol(v(format!("panic:{}", p.site()), p.message))?,
        }
        let u = UnverifiedBiscuit::from(x.to_vec().unwrap()).map_err(|e| v("unverified-from-error".into(), format!("{e:?}")))?;
        match guard(|| u.append_third_party_with_keypair(&tp_bytes, case.next2.keypair())) {
            Ok(Err(_)) => {}
            Ok(Ok(u2)) => {
                let bytes = u2.to_vec().unwrap_or_default();
                let ok1 = guard(|| u2.clone().verify(root_x).is_ok()).unwrap_or(true);
                let ok2 = guard(|| Biscuit::from(&bytes, root_x).is_ok()).unwrap_or(true);
                if ok1 || ok2 {
                    tol(v(
                        format!("replayed-third-party-block-verifies:{what}"),
                        format!("unverified append of a block made for position {at} of {} at position {j} ({what}) gives a token that verifies", case.a.shape()),
                    ))?;
                }
            }
            Err(p) => tol(v(format!("panic:{}", p.site()), p.message))?,
        }
    }
    if replays > 0 {
        rep.nontrivial(hash64(case));
        rep.class("scenario:replay");
    }

    // ------------------------------------------------------------------ (c) re-attribution
    rep.evals(1);
    let attacker = case.attacker.keypair();
    match guard(|| target.append_third_party_with_keypair(attacker.public(), tp.clone(), case.next2.keypair())) {
        Ok(Err(_)) => {}
        Ok(Ok(_)) => tol(v("third-party-block-attributed-to-another-key".into(), case.a.shape()))?,
        Err(p) => tol(v(format!("panic:{}", p.site()), p.message))?,
    }
    rep.class("scenario:reattribution");

    // ------------------------------------------------------------------ (d) message manipulation
    let mut tpw = Tape::new(case.params.clone());
    let contents = schema::ThirdPartyBlockContents::decode(&tp_bytes[..]).map_err(|e| v("harness-decode".into(), format!("{e:?}")))?;
    let mut edited: Vec<(&str, Vec<u8>)> = vec![];
    {
        let mut c = contents.clone();
        c.external_signature.public_key = attacker.public().to_proto();
        edited.push(("response-key-replaced", c.encode_to_vec()));
        let mut c = contents.clone();
        if !c.payload.is_empty() {
            let i = tpw.pick(c.payload.len());
            c.payload[i] ^= 1 << tpw.pick(8);
            edited.push(("response-payload-bitflip", c.encode_to_vec()));
        }
        let mut c = contents.clone();
        vcore::wire::put_varint_field(&mut c.payload, 99, 1);
        edited.push(("response-payload-extended", c.encode_to_vec()));
        let mut c = contents.clone();
        if !c.external_signature.signature.is_empty() {
            let i = tpw.pick(c.external_signature.signature.len());
            c.external_signature.signature[i] ^= 1 << tpw.pick(8);
            edited.push(("response-signature-bitflip", c.encode_to_vec()));
        }
        let mut c = contents.clone();
        c.external_signature.signature.push(0);
        edited.push(("response-signature-extended", c.encode_to_vec()));
        let mut c = contents.clone();
        c.external_signature.public_key.algorithm ^= 1;
        edited.push(("response-key-algorithm-swapped", c.encode_to_vec()));
        // a response signed by the attacker for the right position, presented as the external key's
        if let Ok(Ok(forged)) = guard(|| target.third_party_request().and_then(|r| r.create_block(&attacker.private(), tp_builder().unwrap()))) {
            if let Ok(fb) = forged.serialize() {
                if let Ok(mut c) = schema::ThirdPartyBlockContents::decode(&fb[..]) {
                    c.external_signature.public_key = ext_kp.public().to_proto();
                    edited.push(("attacker-signature-under-signer-key", c.encode_to_vec()));
                }
            }
        }
    }
    let u_target = UnverifiedBiscuit::from(target.to_vec().unwrap()).map_err(|e| v("unverified-from-error".into(), format!("{e:?}")))?;
    for (name, bytes) in &edited {
        rep.evals(1);
        for b64 in [false, true] {
            let r = guard(|| {
                if b64 {
                    u_target.append_third_party_base64(base64::encode_config(bytes, base64::URL_SAFE))
                } else {
                    u_target.append_third_party_with_keypair(bytes, case.next2.keypair())
                }
            });
            match r {
                Ok(Err(_)) => {}
                Ok(Ok(u2)) => {
                    let tb = u2.to_vec().unwrap_or_default();
                    let ok1 = guard(|| u2.clone().verify(root_a).is_ok()).unwrap_or(true);
                    let ok2 = guard(|| Biscuit::from(&tb, root_a).is_ok()).unwrap_or(true);
                    if ok1 || ok2 {
                        // accepted: then it must be attributed to the key that really signed, with the
                        // honest payload
                        let w = WToken::decode(&tb).ok();
                        let same = w
                            .as_ref()
                            .and_then(|w| w.blocks.last().cloned())
                            .map(|b| {
                                b.block == contents.payload
                                    && b.external.as_ref().map(|e| e.signature == contents.external_signature.signature).unwrap_or(false)
                                    && b.external.as_ref().and_then(|e| RKey::parse(&e.public_key).ok()) == Some(rkey_of(&ext_kp.public()))
                            })
                            .unwrap_or(false);
                        if !same {
                            tol(v(format!("manipulated-response-verifies:{name}"), format!("shape {} at {at}", case.a.shape())))?;
                        }
                    }
                }
                Err(p) => tol(v(format!("panic:{}:{name}", p.site()), format!("{} at {}:{}", p.message, p.file, p.line)))?,
            }
        }
    }
    // requests: edited previous signature, legacy fields
    {
        let mut r2 = rq.clone();
        if !r2.previous_signature.is_empty() {
            let i = tpw.pick(r2.previous_signature.len());
            r2.previous_signature[i] ^= 1 << tpw.pick(8);
        }
        rep.evals(1);
        if let Ok(Ok(r)) = guard(|| ThirdPartyRequest::deserialize(&r2.encode_to_vec())) {
            if let Ok(Ok(tp2)) = guard(|| r.create_block(&ext_kp.private(), tp_builder().unwrap())) {
                match guard(|| target.append_third_party_with_keypair(ext_kp.public(), tp2, case.next2.keypair())) {
                    Ok(Ok(_)) => tol(v("block-for-edited-request-accepted".into(), case.a.shape()))?,
                    Ok(Err(_)) => {}
                    Err(p) => tol(v(format!("panic:{}", p.site()), p.message))?,
                }
            }
        }
        let mut r3 = rq.clone();
        r3.legacy_previous_key = Some(ext_kp.public().to_proto());
        let mut r4 = rq.clone();
        r4.legacy_public_keys = vec![ext_kp.public().to_proto()];
        for (name, r) in [("legacy-previous-key", r3), ("legacy-public-keys", r4)] {
            match guard(|| ThirdPartyRequest::deserialize(&r.encode_to_vec()).is_ok()) {
                Ok(false) => {}
                Ok(true) => tol(v(format!("request-with-{name}-accepted"), String::new()))?,
                Err(p) => tol(v(format!("panic:{}", p.site()), p.message))?,
            }
        }
    }
    rep.class("scenario:message-manipulation");

    // ------------------------------------------------------------------ (e) wire manipulation
    let mut final_tok = honest.clone();
    let mut plan_t = case.a.clone();
    plan_t.steps.truncate(at);
    plan_t.steps.push(Step::Third {
        block: case.block.clone(),
        ext: case.ext % case.a.keys.len(),
        next: case.next,
    });
    if let Some((blk, k)) = &case.after {
        match guard(|| final_tok.append_with_keypair(&k.keypair(), blk.to_builder(&pubs).unwrap())) {
            Ok(Ok(t2)) => {
                final_tok = t2;
                plan_t.steps.push(Step::First {
                    block: blk.clone(),
                    next: *k,
                });
            }
            Ok(Err(e)) => tol(v("append-after-third-party-refused".into(), format!("{e:?}")))?,
            Err(p) => tol(v(format!("panic:{}", p.site()), p.message))?,
        }
    }
    {
        let o = c01::prepare(&plan_t)?;
        let donor_w = WToken::decode(&hist_b.last().unwrap().to_vec().unwrap()).map_err(|e| v("harness-decode".into(), e))?;
        let att = RSecret::from_keypair(&attacker);
        let n = o.wt.block_count();
        for kind in ["ext_remove", "ext_add_attacker", "ext_transplant", "ext_rekey", "ext_sig_flip", "ext_sig_high_s", "ext_key_sec1_uncompressed", "version_change", "payload_flip", "sig_swap"] {
            for i in 0..n {
                if let Some(variant) = mutate_block(kind, &o.wt, &donor_w, i, &att, &mut tpw) {
                    let r = c01::check_variant(kind, i, &variant, &o, rep);
                    if let Err(vio) = r {
                        tol(vio)?;
                    }
                }
            }
        }
        for kind in ["swap_blocks", "delete_block", "duplicate_block", "insert_donor_block"] {
            for _ in 0..2 {
                if let Some(variant) = mutate_container(kind, &o.wt, &donor_w, &att, &mut tpw) {
                    if let Err(vio) = c01::check_variant(kind, 0, &variant, &o, rep) {
                        tol(vio)?;
                    }
                }
            }
        }
    }
    rep.class("scenario:wire-manipulation");

    // ------------------------------------------------------------------ (f) isolation and trust
    for k in 0..=at {
        if final_tok.block_symbols(k).ok() != target.block_symbols(k).ok()
            || final_tok.block_public_keys(k).ok().map(|x| x.into_inner()) != target.block_public_keys(k).ok().map(|x| x.into_inner())
            || final_tok.print_block_source(k).ok() != target.print_block_source(k).ok()
        {
            tol(v("third-party-block-changed-carrier-tables".into(), format!("block {k} of {}", plan_t.shape())))?;
        }
    }
    // the third-party block prints as its author wrote it
    if let Ok(src) = final_tok.print_block_source(at + 1) {
        if let Ok(bb) = b::BlockBuilder::new().code(&src) {
            let back = Block::from_builder(&bb, &pubs);
            if back.facts != case.block.facts || back.rules != case.block.rules || back.checks != case.block.checks {
                tol(v("third-party-block-source-is-not-what-its-author-wrote".into(), format!("{src}\nauthor: {:?}", case.block)))?;
            }
        }
    }
    // authorization equals the reference on the plan (facts of the block visible exactly to
    // scopes naming its key)
    let c4 = c04::Case {
        plan: plan_t.clone(),
        authorizer: AuthorizerAst::default(),
        probes: vec![],
    };
    for a in &case.authorizers {
        let mut sub = Report::default();
        let r = c04::test_case(
            ctx,
            &c04::Case {
                authorizer: a.clone(),
                ..c4.clone()
            },
            &mut sub,
        );
        rep.evaluations += sub.evaluations.max(1);
        if let Err(mut vio) = r {
            vio.signature = format!("third-party-trust:{}", vio.signature);
            tol(vio)?;
        }
    }
    rep.class("scenario:isolation");
    Ok(())
}

/// (external key algorithm, block signature version, replayed on another token?, key seed)
type LegacyCase = (u8, u64, bool, u64);

/// A third-party block in the LEGACY format: its external signature covers the payload and the
/// previous block's *public key*, not the previous signature, so it is not bound to one token.
/// Only the entry points named `unsafe_deprecated_*` may accept it; every verification that is
/// not marked deprecated has to refuse the token, also when the bytes were read by
/// `UnverifiedBiscuit::unsafe_deprecated_deserialize` and then verified with `verify`.
fn legacy_case(case: &LegacyCase, rep: &mut Report) -> Result<(), Violation> {
    use vcore::keys::Alg;
    use vcore::wire::{WBlock, WExt, WProof};
    let (ext_alg, version, replay, seed) = *case;
    let kp = |i: u64, alg: Alg| KeyPlan { alg, seed: seed * 16 + i };
    let rs = |k: &KeyPlan| RSecret::from_keypair(&k.keypair());
    let root = kp(0, Alg::Ed);
    let next = kp(1, Alg::Ed);
    let next2 = kp(2, Alg::Ed);
    let ext = kp(3, if ext_alg == 0 { Alg::Ed } else { Alg::P256 });
    let plain = |name: &str| {
        schema::Block {
            symbols: vec![name.to_string()],
            context: None,
            version: Some(3),
            facts_v2: vec![],
            rules_v2: vec![],
            checks_v2: vec![],
            scope: vec![],
            public_keys: vec![],
        }
        .encode_to_vec()
    };
    let tp_payload = plain("legacy_third_party");
    // the legacy external signature, made for a token whose authority block announces `next`
    let next_pub = rs(&next).public();
    let mut legacy_msg = tp_payload.clone();
    legacy_msg.extend_from_slice(&(next_pub.algorithm() as i32).to_le_bytes());
    legacy_msg.extend_from_slice(&next_pub.bytes());
    let ext_sig = rs(&ext).sign(&legacy_msg);
    // the carrier: the token the block was made for, or another token of the same root whose
    // holder chose the same next key (the replay the binding to the previous signature prevents)
    let authority_payload = plain(if replay { "another_token" } else { "first_token" });
    let mut signer = RefSigner::new(&rs(&root), &rs(&next), &authority_payload, 0, None);
    let nk2 = rs(&next2).public();
    let block_sig = rs(&next).sign(&if version == 0 {
        payload_v0(&tp_payload, &nk2, Some(&ext_sig))
    } else {
        payload_v1(&tp_payload, &nk2, Some(&signer.last_signature()), Some(&ext_sig), version)
    });
    signer.token.blocks.push(WBlock {
        block: tp_payload,
        next_key: nk2.to_wire(),
        signature: block_sig,
        external: Some(WExt {
            signature: ext_sig,
            public_key: rs(&ext).public().to_wire(),
        }),
        version: if version == 0 { None } else { Some(version) },
    });
    signer.token.proof = WProof::Secret(rs(&next2).bytes());
    let bytes = signer.token.encode();
    let root_pub = root.public();
    rep.evals(1);
    rep.nontrivial(hash64(case));
    rep.class(format!("legacy:ext-alg-{ext_alg}:version-{version}:replay-{replay}"));
    // sanity of the construction: the reference verifier, which knows only the bound format,
    // refuses it
    if verify_token(&bytes, &rkey_of(&root_pub)).is_ok() {
        return Err(v("harness-legacy-token-verifies-with-refcrypto".into(), hex::encode(&bytes)));
    }
    let b64 = base64::encode_config(&bytes, base64::URL_SAFE);
    let entries: Vec<(&str, Result<bool, vcore::util::PanicInfo>)> = vec![
        ("Biscuit::from", guard(|| Biscuit::from(&bytes, root_pub).is_ok())),
        ("Biscuit::from_base64", guard(|| Biscuit::from_base64(&b64, root_pub).is_ok())),
        ("UnverifiedBiscuit::from + verify", guard(|| UnverifiedBiscuit::from(&bytes).ok().map(|u| u.verify(root_pub).is_ok()).unwrap_or(false))),
        (
            "UnverifiedBiscuit::unsafe_deprecated_deserialize + verify",
            guard(|| UnverifiedBiscuit::unsafe_deprecated_deserialize(&bytes).ok().map(|u| u.verify(root_pub).is_ok()).unwrap_or(false)),
        ),
    ];
    for (entry, r) in entries {
        match r {
            Ok(false) => rep.class("legacy:refused"),
            Ok(true) => {
                return Err(v(
                    "legacy-unbound-third-party-block-verifies".into(),
                    format!("{entry} accepts a token whose third-party block (external key algorithm {ext_alg}, block signature version {version}) is signed in the legacy format, i.e. not over the previous signature{}\ntoken {}", if replay { "; the block was made for another token" } else { "" }, hex::encode(&bytes)),
                ))
            }
            Err(p) => return Err(v(format!("panic:{}", p.site()), p.message)),
        }
    }
    // the deprecated reader is the documented exception; it must not panic
    if let Err(p) = guard(|| Biscuit::unsafe_deprecated_deserialize(&bytes, root_pub).is_ok()) {
        return Err(v(format!("panic:{}", p.site()), p.message));
    }
    Ok(())
}

pub fn run(ctx: &Ctx, replay: Option<&serde_json::Value>) {
    if let Some(r) = replay {
        if r["sub"].as_str() == Some("legacy-format") {
            let case: LegacyCase = serde_json::from_value(r["case"].clone()).expect("bad replay case");
            ctx.run_list("legacy-format", &[case], |c, r| legacy_case(c, r));
            return;
        }
        let case: Case = serde_json::from_value(r["case"].clone()).expect("bad replay case");
        ctx.run_list("scenarios", &[case], |c, r| test_case(ctx, c, r));
        return;
    }
    ctx.set_rule("pairs of tokens (A, B) (other root / same root / sibling attenuation) x a position in A x third-party block contents x external key algorithm; scenarios per case: honest request -> block -> append (bytes on both API paths, RefCrypto check of the external signature); replay of the response at every other position of A and every position of B through both APIs; re-attribution; 8 manipulations of the response message (raw and base64) and 3 of the request; 14 wire manipulation kinds at every block of the resulting token; table isolation, author fidelity and trust (RefAuthz) incl. authorizers looking at the block's facts with and without naming its key; non-trivial = at least one replay target differing from the honest (token, position); distinct = hash(case)");
    ctx.assume("UnverifiedBiscuit::append_third_party does not verify at append time by design: the resulting token must then fail verification");
    ctx.assume("only entry points named unsafe_deprecated_* may accept the legacy (unbound) external signature format; `verify` after `UnverifiedBiscuit::unsafe_deprecated_deserialize` is a verification like any other");
    let mut legacy = vec![];
    for ext_alg in [0u8, 1] {
        for version in [0u64, 1] {
            for replay in [false, true] {
                for seed in 0..ctx.tier.pick(4, 64) as u64 {
                    legacy.push((ext_alg, version, replay, 0x1e9ac0 + seed));
                }
            }
        }
    }
    ctx.run_list("legacy-format", &legacy, |c, r| legacy_case(c, r));
    let cases = ctx.tier.pick(3000, 60_000);
    let cfg = GenCfg {
        typed: true,
        grammar_normal: true,
        strict_bool_ops: false,
        max_facts: 3,
        max_rules: 2,
        max_checks: 2,
        n_keys: 3,
        ..GenCfg::default()
    };
    ctx.run_prop(
        "scenarios",
        cases,
        || {
            let cfg = cfg.clone();
            from_tape(2400, move |t| gen_case(t, &cfg))
        },
        |c, r| test_case(ctx, c, r),
    );
}
