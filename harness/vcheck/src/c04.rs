//! C04 - authorization decisions follow the scoped-Datalog semantics
use biscuit_auth::builder as b;
use serde::{Deserialize, Serialize};
use serde_json::json;
use std::collections::BTreeSet;
use vcore::ast::*;
use vcore::authz::*;
use vcore::gen::*;
use vcore::keys::{Alg, KeyPlan};
use vcore::refdl::*;
use vcore::refeval::no_externs;
use vcore::runner::{Ctx, Report, Violation};
use vcore::tape::{from_tape, Tape};
use vcore::tokens::*;
use vcore::util::{guard, hash64};

#[derive(Clone, Debug, Serialize, Deserialize)]
pub struct Case {
    pub plan: TokenPlan,
    pub authorizer: AuthorizerAst,
    pub probes: Vec<Rule>,
}

fn v(sig: &str, detail: String) -> Violation {
    Violation::new(sig, detail)
}

pub fn rtoken_of(plan: &TokenPlan) -> RToken {
    RToken {
        blocks: (0..plan.block_count())
            .map(|i| (plan.block(i).clone(), plan.ext_of(i).map(|e| e % plan.keys.len())))
            .collect(),
    }
}

/// small tokens for the Datalog properties: ed25519 only unless the tape says otherwise
pub fn gen_case(t: &mut Tape, cfg: &GenCfg) -> Case {
    let mut cfg = cfg.clone();
    if t.chance(4, 5) {
        cfg.sigs = gen_sig_subset(t);
    }
    let mut plan = gen_token_plan(t, &cfg, 3);
    plan.seal = false;
    let authorizer = gen_authorizer(t, &cfg);
    let np = t.range(1, 3);
    let probes = (0..np).map(|_| gen_rule(t, &cfg)).collect();
    Case {
        plan,
        authorizer,
        probes,
    }
}

pub fn show_case(case: &Case) -> serde_json::Value {
    let pubs = case.plan.publics();
    let blocks: Vec<String> = (0..case.plan.block_count())
        .map(|i| {
            let bb = case.plan.block(i).to_builder(&pubs).map(|b| b.to_string()).unwrap_or_default();
            format!(
                "[{}{}] {}{}",
                i,
                case.plan.ext_of(i).map(|e| format!(" third-party key#{}", e % case.plan.keys.len())).unwrap_or_default(),
                if case.plan.block(i).scopes.is_empty() { String::new() } else { format!("(block scope {:?}) ", case.plan.block(i).scopes) },
                bb.replace('\n', " ")
            )
        })
        .collect();
    let auth = case.authorizer.to_builder(&pubs).map(|a| a.dump_code()).unwrap_or_default();
    json!({"blocks": blocks, "authorizer_scope": format!("{:?}", case.authorizer.block.scopes), "authorizer": auth.replace('\n', " ")})
}

pub fn lib_query(a: &mut biscuit_auth::Authorizer, rule: &Rule, keys: &[biscuit_auth::PublicKey], all: bool) -> Result<BTreeSet<Pred>, String> {
    let r = guard(|| {
        let br = rule.to_b(&keys.to_vec());
        let res: Result<Vec<b::Fact>, _> = if all { a.query_all(br) } else { a.query(br) };
        res.map(|v| v.iter().map(|f| Pred::from_b(&f.predicate)).collect::<BTreeSet<_>>())
            .map_err(|e| format!("{e:?}"))
    });
    match r {
        Ok(r) => r,
        Err(p) => Err(format!("PANIC {} at {}:{}", p.message, p.site(), p.line)),
    }
}

pub fn test_case(ctx: &Ctx, case: &Case, rep: &mut Report) -> Result<(), Violation> {
    let plan = &case.plan;
    let pubs = plan.publics();
    let rtok = rtoken_of(plan);
    let mut ra = RefAuthz::new(Some(&rtok), &case.authorizer);
    let expected = ra.authorize(&no_externs);
    let expected = match expected {
        RefOutcome::One(o) => o,
        RefOutcome::Errors(_) => {
            rep.excluded += 1;
            rep.class("excluded:not_error_free");
            return Ok(());
        }
    };
    let token = match guard(|| build_token(plan)) {
        Ok(Ok(t)) => t,
        Ok(Err(e)) => return Err(v("api-build-error", format!("{e:?}"))),
        Err(p) => return Err(v(&format!("panic:{}", p.site()), p.message)),
    };
    // reload: the authorizer must see what a verifier sees
    let token = biscuit_auth::Biscuit::from(token.to_vec().map_err(|e| v("to_vec-error", format!("{e:?}")))?, plan.root.public())
        .map_err(|e| v("from-rejects-own-token", format!("{e:?}")))?;
    let got = authorize(Some(&token), &case.authorizer, &pubs);
    let non_default_scope = (0..plan.block_count()).any(|i| {
        !plan.block(i).scopes.is_empty() || plan.block(i).all_rules().any(|r| !r.scopes.is_empty())
    }) || !case.authorizer.block.scopes.is_empty()
        || case.authorizer.block.all_rules().any(|r| !r.scopes.is_empty());
    let late_policy = matches!(&expected, Outcome::Allow(i) if *i > 0)
        || matches!(&expected, Outcome::Refused { policy: Some((_, i)), .. } if *i > 0);
    if (plan.block_count() >= 2 && non_default_scope) || !expected.failed().is_empty() || late_policy {
        rep.nontrivial(hash64(&(plan, &case.authorizer)));
    }
    rep.class(match &expected {
        Outcome::Allow(_) => "expected:allow".to_string(),
        Outcome::Refused { policy: None, .. } => "expected:no_matching_policy".to_string(),
        Outcome::Refused { policy: Some((true, _)), .. } => "expected:allow_policy_but_failed_checks".to_string(),
        Outcome::Refused { policy: Some((false, _)), .. } => "expected:deny".to_string(),
        _ => "expected:other".to_string(),
    });
    rep.class(format!("blocks={}", plan.block_count()));
    if plan.steps.iter().any(|s| s.is_third()) {
        rep.class("third_party");
    }
    if non_default_scope {
        rep.class("non_default_scope");
    }
    rep.sample(show_case(case));
    if got != expected {
        // classify the known divergence on `reject if` with several alternatives
        let multi_reject = (0..plan.block_count())
            .flat_map(|i| plan.block(i).checks.iter())
            .chain(case.authorizer.block.checks.iter())
            .any(|c| c.kind == CheckKind::Reject && c.queries.len() >= 2);
        let sig = if let Outcome::Panic(p) = &got {
            format!("panic-in-authorize:{}", p.split(" at ").nth(1).unwrap_or("?").split(':').next().unwrap_or("?"))
        } else if multi_reject && reject_first_nonmatch_explains(case, &got) {
            "decision-differs:reject-if-with-several-alternatives".to_string()
        } else {
            "decision-differs".to_string()
        };
        let vio = v(
            &sig,
            format!("library {:?}\nreference {:?}\n{}", got, expected, serde_json::to_string_pretty(&show_case(case)).unwrap()),
        );
        if !ctx.tolerate(&vio) {
            return Err(vio);
        }
        return Ok(());
    }
    // queries observe the same scoped world
    let mut a = match build_authorizer(Some(&token), &case.authorizer, &pubs, big_limits()) {
        Ok(a) => a,
        Err(_) => return Ok(()),
    };
    for (k, probe) in case.probes.iter().enumerate() {
        for all in [false, true] {
            rep.evals(1);
            let expected_q = if all {
                ra.query_all(probe, &no_externs)
            } else {
                ra.query(probe, &no_externs)
            };
            let Ok(expected_q) = expected_q else { continue };
            match lib_query(&mut a, probe, &pubs, all) {
                Ok(got_q) => {
                    if got_q != expected_q {
                        return Err(v(
                            if all { "query_all-differs" } else { "query-differs" },
                            format!(
                                "probe {k} {:?}\nlibrary {:?}\nreference {:?}\n{}",
                                probe,
                                got_q,
                                expected_q,
                                serde_json::to_string_pretty(&show_case(case)).unwrap()
                            ),
                        ));
                    }
                }
                Err(e) => {
                    return Err(v(
                        if e.starts_with("PANIC") { "panic-in-query" } else { "query-error-on-error-free-program" },
                        format!("probe {k} {:?}: {e}", probe),
                    ))
                }
            }
        }
    }
    Ok(())
}

/// would the library's rule for `reject if` (passes as soon as one alternative has no match)
/// produce `got`? Used to attribute a divergence to its root cause, not to accept it.
fn reject_first_nonmatch_explains(case: &Case, got: &Outcome) -> bool {
    let plan = &case.plan;
    let rtok = rtoken_of(plan);
    // re-run the reference with `reject if q1 or q2` rewritten per alternative semantics
    let mut alt_auth = case.authorizer.clone();
    let mut alt_tok = rtok.clone();
    fn rewrite(c: &mut Check, world: &RefAuthz, default: &Origin, current: usize) {
        if c.kind == CheckKind::Reject && c.queries.len() >= 2 {
            // keep only one non-matching alternative if any (then the library passes the check)
            let nm: Vec<Rule> = c
                .queries
                .iter()
                .filter(|q| {
                    let tr = trusted_origins(&q.scopes, default, current, &world.tok);
                    eval_query(q, &world.world.facts, &tr, &no_externs).matching == 0
                })
                .cloned()
                .collect();
            if let Some(q) = nm.first() {
                c.queries = vec![q.clone()];
            }
        }
    }
    let mut ra = RefAuthz::new(Some(&rtok), &case.authorizer);
    if ra.world.run(&no_externs, 10_000).is_err() {
        return false;
    }
    for c in alt_auth.block.checks.iter_mut() {
        rewrite(c, &ra, &ra.auth_default, AUTH);
    }
    for (i, (b, _)) in alt_tok.blocks.iter_mut().enumerate() {
        for c in b.checks.iter_mut() {
            rewrite(c, &ra, &ra.block_defaults[i], i);
        }
    }
    let mut ra2 = RefAuthz::new(Some(&alt_tok), &alt_auth);
    matches!(ra2.authorize(&no_externs), RefOutcome::One(o) if &o == got)
}

// ---------------------------------------------------------------------------------------------
// exhaustive small scope
// ---------------------------------------------------------------------------------------------

fn scope_subsets() -> Vec<Vec<Scope>> {
    let all = [Scope::Authority, Scope::Previous, Scope::Key(0), Scope::Key(1)];
    (0..16u32)
        .map(|m| all.iter().enumerate().filter(|(i, _)| m & (1 << i) != 0).map(|(_, s)| s.clone()).collect())
        .collect()
}

fn fixed_key(tag: u64) -> KeyPlan {
    KeyPlan {
        alg: Alg::Ed,
        seed: 0x7700 + tag,
    }
}

fn f(i: i64) -> Pred {
    Pred::new("f", vec![Term::Int(i)])
}

fn truth() -> Expr {
    Expr {
        ops: vec![Op::Value(Term::Bool(true))],
    }
}

/// all configurations over: 0..=max_extra extra blocks each in {first-party, third-party K1,
/// third-party K2}; one probe fact f(i) per block and f(99) in the authorizer; one probe check of
/// each kind placed in each owner with each block-level and rule-level scope subset, looking for
/// each target fact; plus one probe rule g($i) <- f($i) per owner and rule scope, observed by
/// query_all.
pub fn exhaustive_cases(max_extra: usize) -> Vec<Case> {
    let subsets = scope_subsets();
    let mut shapes: Vec<Vec<u8>> = vec![vec![]];
    let mut frontier: Vec<Vec<u8>> = vec![vec![]];
    for _ in 0..max_extra {
        let mut next = vec![];
        for s in &frontier {
            for k in 0..3u8 {
                let mut s2 = s.clone();
                s2.push(k);
                next.push(s2);
            }
        }
        shapes.extend(next.iter().cloned());
        frontier = next;
    }
    let mut out = vec![];
    for shape in &shapes {
        let n = 1 + shape.len();
        let base_plan = |blocks: Vec<Block>| -> TokenPlan {
            TokenPlan {
                keys: vec![fixed_key(1), fixed_key(2)],
                root: fixed_key(10),
                root_key_id: None,
                authority: blocks[0].clone(),
                first_next: fixed_key(11),
                steps: shape
                    .iter()
                    .enumerate()
                    .map(|(i, k)| match k {
                        0 => Step::First {
                            block: blocks[i + 1].clone(),
                            next: fixed_key(12 + i as u64),
                        },
                        k => Step::Third {
                            block: blocks[i + 1].clone(),
                            ext: (*k - 1) as usize,
                            next: fixed_key(12 + i as u64),
                        },
                    })
                    .collect(),
                seal: false,
            }
        };
        let plain: Vec<Block> = (0..n)
            .map(|i| Block {
                facts: vec![f(i as i64)],
                ..Default::default()
            })
            .collect();
        let allow_all = Policy {
            allow: true,
            queries: vec![Rule::query(vec![], vec![truth()], vec![])],
        };
        let mut targets: Vec<i64> = (0..n as i64).collect();
        targets.push(99);
        // family 1: checks
        for owner in 0..=n {
            // owner == n means the authorizer
            for kind in [CheckKind::One, CheckKind::All, CheckKind::Reject] {
                for target in &targets {
                    for bs in &subsets {
                        for rs in &subsets {
                            let check = Check {
                                kind,
                                queries: vec![Rule::query(vec![f(*target)], vec![], rs.clone())],
                            };
                            let mut blocks = plain.clone();
                            let mut auth = AuthorizerAst {
                                block: Block {
                                    facts: vec![f(99)],
                                    ..Default::default()
                                },
                                policies: vec![allow_all.clone()],
                            };
                            if owner == n {
                                auth.block.checks.push(check);
                                auth.block.scopes = bs.clone();
                            } else {
                                blocks[owner].checks.push(check);
                                blocks[owner].scopes = bs.clone();
                            }
                            out.push(Case {
                                plan: base_plan(blocks),
                                authorizer: auth,
                                probes: vec![],
                            });
                        }
                    }
                }
            }
        }
        // family 2: a rule in each owner with each rule scope, then an allow policy under each
        // authorizer scope; query and query_all probes
        for owner in 0..=n {
            for rs in &subsets {
                for asub in &subsets {
                    let rule = Rule {
                        head: Pred::new("g", vec![Term::v("i")]),
                        body: vec![Pred::new("f", vec![Term::v("i")])],
                        exprs: vec![],
                        scopes: rs.clone(),
                    };
                    let mut blocks = plain.clone();
                    let mut auth = AuthorizerAst {
                        block: Block {
                            facts: vec![f(99)],
                            scopes: asub.clone(),
                            ..Default::default()
                        },
                        policies: vec![
                            Policy {
                                allow: false,
                                queries: vec![Rule::query(vec![Pred::new("g", vec![Term::Int(1)])], vec![], vec![])],
                            },
                            Policy {
                                allow: true,
                                queries: vec![
                                    Rule::query(vec![Pred::new("g", vec![Term::Int(2)])], vec![], vec![]),
                                    Rule::query(vec![Pred::new("g", vec![Term::Int(0)])], vec![], vec![Scope::Key(1)]),
                                ],
                            },
                            allow_all.clone(),
                        ],
                    };
                    if owner == n {
                        auth.block.rules.push(rule);
                    } else {
                        blocks[owner].rules.push(rule);
                    }
                    let probe = |scopes: Vec<Scope>| Rule {
                        head: Pred::new("probe", vec![Term::v("i")]),
                        body: vec![Pred::new("g", vec![Term::v("i")])],
                        exprs: vec![],
                        scopes,
                    };
                    out.push(Case {
                        plan: base_plan(blocks),
                        authorizer: auth,
                        probes: vec![probe(vec![]), probe(vec![Scope::Key(0)]), probe(vec![Scope::Authority, Scope::Key(1)])],
                    });
                }
            }
        }
    }
    out
}

pub fn run(ctx: &Ctx, replay: Option<&serde_json::Value>) {
    if let Some(r) = replay {
        let case: Case = serde_json::from_value(r["case"].clone()).expect("bad replay case");
        ctx.run_list(r["sub"].as_str().unwrap_or("random"), &[case], |c, r| test_case(ctx, c, r));
        return;
    }
    ctx.set_rule("(a) random: TokenPlan (1-4 blocks, first/third party, block/rule/check scopes) x AuthorizerAst (three check kinds, multi-alternative checks and policies, ordered allow/deny, authorizer scope) x probe rules for query/query_all; typed expressions; (b) exhaustive small scope: every configuration of <=N extra blocks in {first-party, third-party K1, K2} x probe check (3 kinds) in every owner x 16 block-level x 16 rule-level scope subsets x every target fact, plus probe rule x 16 rule scopes x 16 authorizer scopes; oracle = RefAuthz (decision, failed-check list, policy) and RefDatalog (queries); non-trivial = >=2 blocks with a non-default scope, or a failing check, or a policy other than the first matching; distinct = hash(plan, authorizer)");
    ctx.assume("`previous` in the authorizer scope is ignored, as the code documents");
    ctx.assume("error-free programs only: cases where the reference meets an expression error are excluded and counted");
    let max_extra = match ctx.tier {
        vcore::runner::Tier::Quick => 1,
        vcore::runner::Tier::Thorough => 2,
    };
    let ex = exhaustive_cases(max_extra);
    ctx.extra("exhaustive_configurations", json!(ex.len()));
    ctx.extra("exhaustive", json!(false));
    ctx.extra("exhaustive_small_scope_complete", json!(true));
    ctx.run_list("exhaustive", &ex, |c, r| test_case(ctx, c, r));
    let cases = ctx.tier.pick(60_000, 1_200_000);
    let cfg = GenCfg {
        max_facts: 4,
        max_rules: 2,
        max_checks: 2,
        n_keys: 3,
        ..GenCfg::default()
    };
    ctx.run_prop(
        "random",
        cases,
        || {
            let cfg = cfg.clone();
            from_tape(1400, move |t| gen_case(t, &cfg))
        },
        |c, r| test_case(ctx, c, r),
    );
}
