//! C16 - blocks declare the language version they need; under-declared blocks are refused
use biscuit_auth::format::schema;
use biscuit_auth::Biscuit;
use prost::Message;
use serde::{Deserialize, Serialize};
use serde_json::json;
use std::collections::BTreeMap;
use vcore::ast::*;
use vcore::gen::*;
use vcore::keys::{Alg, KeyPlan};
use vcore::refcrypto::*;
use vcore::runner::{Ctx, Report, Violation};
use vcore::tape::{from_tape, Tape};
use vcore::tokens::*;
use vcore::util::{guard, hash64};
use vcore::wire::WToken;

fn v(sig: String, detail: String) -> Violation {
    Violation::new(sig, detail)
}

// ---------------------------------------------------------------------------------------------
// RefVersion: feature -> version table transcribed from the specification
// 3 = 3.0 base; 4 = 3.1 (scopes, check all, bitwise operators, strict !==); 5 = 3.2 (third-party
// blocks); 6 = 3.3 (reject if, null, arrays, maps, get, type, closures / all / any, lazy && ||,
// heterogeneous == !=, extern calls)
// ---------------------------------------------------------------------------------------------

fn term_needs_33(t: &Term) -> bool {
    let mut r = false;
    t.visit(&mut |x| {
        if matches!(x, Term::Null | Term::Array(_) | Term::Map(_)) {
            r = true;
        }
    });
    r
}

fn ops_version(ops: &[Op]) -> u32 {
    let mut ver = 3;
    for o in ops {
        let x = match o {
            Op::Value(t) => {
                if term_needs_33(t) {
                    6
                } else {
                    3
                }
            }
            Op::Closure(_, _) => 6,
            Op::Unary(Un::TypeOf) | Op::Unary(Un::Ffi(_)) => 6,
            Op::Unary(_) => 3,
            Op::Binary(b) => match b {
                Bin::HeterogeneousEqual | Bin::HeterogeneousNotEqual | Bin::LazyAnd | Bin::LazyOr | Bin::All | Bin::Any | Bin::Get | Bin::Ffi(_) => 6,
                Bin::BitwiseAnd | Bin::BitwiseOr | Bin::BitwiseXor | Bin::NotEqual => 4,
                _ => 3,
            },
        };
        ver = ver.max(x);
    }
    ver
}

fn rule_version(r: &Rule, is_query: bool) -> u32 {
    let mut ver = 3;
    if !r.scopes.is_empty() {
        ver = 4;
    }
    let preds: Vec<&Pred> = if is_query { r.body.iter().collect() } else { std::iter::once(&r.head).chain(r.body.iter()).collect() };
    for p in preds {
        if p.terms.iter().any(term_needs_33) {
            ver = 6;
        }
    }
    for e in &r.exprs {
        ver = ver.max(ops_version(&e.ops));
    }
    ver
}

pub fn ref_version(b: &Block, third_party: bool) -> u32 {
    let mut ver = 3;
    if !b.scopes.is_empty() {
        ver = 4;
    }
    for f in &b.facts {
        if f.terms.iter().any(term_needs_33) {
            ver = 6;
        }
    }
    for r in &b.rules {
        ver = ver.max(rule_version(r, false));
    }
    for c in &b.checks {
        ver = ver.max(match c.kind {
            CheckKind::One => 3,
            CheckKind::All => 4,
            CheckKind::Reject => 6,
        });
        for q in &c.queries {
            ver = ver.max(rule_version(q, true));
        }
    }
    if third_party {
        ver = ver.max(5);
    }
    ver
}

// ---------------------------------------------------------------------------------------------
// one block per feature
// ---------------------------------------------------------------------------------------------

fn e(ops: Vec<Op>) -> Expr {
    Expr { ops }
}
fn val(t: Term) -> Op {
    Op::Value(t)
}

pub fn features() -> Vec<(String, Block)> {
    let i = |x: i64| Term::Int(x);
    let fact = |t: Vec<Term>| Block {
        facts: vec![Pred::new("f", t)],
        ..Default::default()
    };
    let check_expr = |ex: Expr| Block {
        checks: vec![Check {
            kind: CheckKind::One,
            queries: vec![Rule::query(vec![Pred::new("f", vec![Term::v("x")])], vec![ex], vec![])],
        }],
        ..Default::default()
    };
    let rule_expr = |ex: Expr| Block {
        rules: vec![Rule {
            head: Pred::new("g", vec![Term::v("x")]),
            body: vec![Pred::new("f", vec![Term::v("x")])],
            exprs: vec![ex],
            scopes: vec![],
        }],
        ..Default::default()
    };
    let bin = |b: Bin, l: Term, r: Term| e(vec![val(l), val(r), Op::Binary(b)]);
    let mut out: Vec<(String, Block)> = vec![];
    out.push(("plain-fact".into(), fact(vec![i(1), Term::s("a"), Term::Bool(true), Term::Date(1), Term::Bytes(vec![1])])));
    out.push(("plain-set".into(), fact(vec![Term::Set([i(1), i(2)].into_iter().collect())])));
    out.push(("plain-rule-and-check".into(), {
        let mut b = rule_expr(bin(Bin::LessThan, Term::v("x"), i(3)));
        b.checks = check_expr(bin(Bin::Equal, Term::v("x"), i(3))).checks;
        b
    }));
    for (name, b) in [
        ("op-add", Bin::Add), ("op-sub", Bin::Sub), ("op-mul", Bin::Mul), ("op-div", Bin::Div), ("op-lt", Bin::LessThan), ("op-gt", Bin::GreaterThan),
        ("op-le", Bin::LessOrEqual), ("op-ge", Bin::GreaterOrEqual), ("op-strict-eq", Bin::Equal), ("op-and", Bin::And), ("op-or", Bin::Or),
        ("op-contains", Bin::Contains), ("op-prefix", Bin::Prefix), ("op-suffix", Bin::Suffix), ("op-regex", Bin::Regex),
        ("op-intersection", Bin::Intersection), ("op-union", Bin::Union),
        ("op-bitwise-and", Bin::BitwiseAnd), ("op-bitwise-or", Bin::BitwiseOr), ("op-bitwise-xor", Bin::BitwiseXor), ("op-strict-neq", Bin::NotEqual),
        ("op-hetero-eq", Bin::HeterogeneousEqual), ("op-hetero-neq", Bin::HeterogeneousNotEqual), ("op-get", Bin::Get),
        ("op-extern-binary", Bin::Ffi("ext".into())),
    ] {
        out.push((format!("{name}:check"), check_expr(bin(b.clone(), Term::v("x"), Term::v("x")))));
        out.push((format!("{name}:rule"), rule_expr(bin(b.clone(), Term::v("x"), Term::v("x")))));
    }
    for (name, u) in [("op-negate", Un::Negate), ("op-parens", Un::Parens), ("op-length", Un::Length), ("op-typeof", Un::TypeOf), ("op-extern-unary", Un::Ffi("ext".into()))] {
        out.push((format!("{name}:check"), check_expr(e(vec![val(Term::v("x")), Op::Unary(u.clone())]))));
        out.push((format!("{name}:rule"), rule_expr(e(vec![val(Term::v("x")), Op::Unary(u.clone())]))));
    }
    for (name, b) in [("op-lazy-and", Bin::LazyAnd), ("op-lazy-or", Bin::LazyOr)] {
        out.push((
            format!("{name}:check"),
            check_expr(e(vec![val(Term::Bool(true)), Op::Closure(vec![], vec![val(Term::Bool(true))]), Op::Binary(b.clone())])),
        ));
    }
    for (name, b) in [("op-all", Bin::All), ("op-any", Bin::Any)] {
        out.push((
            format!("{name}:check"),
            check_expr(e(vec![
                val(Term::Set([i(1)].into_iter().collect())),
                Op::Closure(vec!["p".into()], vec![val(Term::v("p")), val(i(1)), Op::Binary(Bin::Equal)]),
                Op::Binary(b.clone()),
            ])),
        ));
    }
    // term types at depth 0-2 in every container
    let specials: Vec<(&str, Term)> = vec![
        ("null", Term::Null),
        ("array", Term::Array(vec![i(1)])),
        ("empty-array", Term::Array(vec![])),
        ("map", Term::Map([(MapKey::Str("k".into()), i(1))].into_iter().collect())),
        ("empty-map", Term::Map(BTreeMap::new())),
        ("null-in-set", Term::Set([Term::Null].into_iter().collect())),
        ("null-in-array", Term::Array(vec![Term::Null])),
        ("array-in-array", Term::Array(vec![Term::Array(vec![])])),
        ("map-in-array", Term::Array(vec![Term::Map(BTreeMap::new())])),
        ("null-in-map", Term::Map([(MapKey::Int(1), Term::Null)].into_iter().collect())),
        ("array-in-set", Term::Set([Term::Array(vec![i(1)])].into_iter().collect())),
    ];
    for (name, t) in &specials {
        out.push((format!("term-{name}:fact"), fact(vec![t.clone()])));
        out.push((
            format!("term-{name}:rule-head"),
            Block {
                rules: vec![Rule {
                    head: Pred::new("g", vec![t.clone()]),
                    body: vec![Pred::new("f", vec![Term::v("x")])],
                    exprs: vec![],
                    scopes: vec![],
                }],
                ..Default::default()
            },
        ));
        out.push((
            format!("term-{name}:rule-body"),
            Block {
                rules: vec![Rule {
                    head: Pred::new("g", vec![i(1)]),
                    body: vec![Pred::new("f", vec![t.clone()])],
                    exprs: vec![],
                    scopes: vec![],
                }],
                ..Default::default()
            },
        ));
        out.push((
            format!("term-{name}:check-body"),
            Block {
                checks: vec![Check {
                    kind: CheckKind::One,
                    queries: vec![Rule::query(vec![Pred::new("f", vec![t.clone()])], vec![], vec![])],
                }],
                ..Default::default()
            },
        ));
        out.push((format!("term-{name}:expression"), check_expr(bin(Bin::Equal, t.clone(), t.clone()))));
    }
    // check kinds
    for (name, k) in [("check-if", CheckKind::One), ("check-all", CheckKind::All), ("reject-if", CheckKind::Reject)] {
        out.push((
            name.into(),
            Block {
                checks: vec![Check {
                    kind: k,
                    queries: vec![Rule::query(vec![Pred::new("f", vec![Term::v("x")])], vec![], vec![])],
                }],
                ..Default::default()
            },
        ));
    }
    // scopes at block, rule and check level
    for (name, s) in [("authority", Scope::Authority), ("previous", Scope::Previous), ("key", Scope::Key(0))] {
        out.push((
            format!("scope-{name}:block"),
            Block {
                facts: vec![Pred::new("f", vec![i(1)])],
                scopes: vec![s.clone()],
                ..Default::default()
            },
        ));
        out.push((
            format!("scope-{name}:rule"),
            Block {
                rules: vec![Rule {
                    head: Pred::new("g", vec![Term::v("x")]),
                    body: vec![Pred::new("f", vec![Term::v("x")])],
                    exprs: vec![],
                    scopes: vec![s.clone()],
                }],
                ..Default::default()
            },
        ));
        out.push((
            format!("scope-{name}:check"),
            Block {
                checks: vec![Check {
                    kind: CheckKind::One,
                    queries: vec![Rule::query(vec![Pred::new("f", vec![Term::v("x")])], vec![], vec![s.clone()])],
                }],
                ..Default::default()
            },
        ));
    }
    out
}

#[derive(Clone, Debug, Serialize, Deserialize, Hash)]
pub struct FeatureCase {
    pub name: String,
    pub block: Block,
}

fn kp(seed: u64, alg: Alg) -> KeyPlan {
    KeyPlan { alg, seed: 0x1600 + seed }
}

/// builders declare the minimum version, on the three builder paths
pub fn test_declared(ctx: &Ctx, case: &FeatureCase, rep: &mut Report) -> Result<(), Violation> {
    let keys = vec![kp(1, Alg::Ed).public()];
    let expected = ref_version(&case.block, false);
    let expected_tp = ref_version(&case.block, true);
    rep.class(format!("needs={expected}"));
    if expected > 3 {
        rep.nontrivial(hash64(case));
    }
    rep.sample(json!({"feature": case.name, "needs": expected, "source": case.block.to_builder(&keys).map(|b| b.to_string()).unwrap_or_default()}));
    let root = kp(2, Alg::Ed).keypair();
    let r = guard(|| -> Result<(u32, u32, u32), String> {
        let tok = case
            .block
            .to_biscuit_builder(&keys)
            .map_err(|e| format!("{e:?}"))?
            .build_with_key_pair(&root, biscuit_auth::datalog::SymbolTable::default(), &kp(3, Alg::Ed).keypair())
            .map_err(|e| format!("{e:?}"))?;
        let v0 = tok.block_version(0).map_err(|e| format!("block_version(0): {e:?}"))?;
        let tok2 = tok
            .append_with_keypair(&kp(4, Alg::Ed).keypair(), case.block.to_builder(&keys).map_err(|e| format!("{e:?}"))?)
            .map_err(|e| format!("{e:?}"))?;
        let v1 = tok2.block_version(1).map_err(|e| format!("block_version(1): {e:?}"))?;
        let ext = kp(1, Alg::Ed).keypair();
        let req = tok2.third_party_request().map_err(|e| format!("{e:?}"))?;
        let tp = req
            .create_block(&ext.private(), case.block.to_builder(&keys).map_err(|e| format!("{e:?}"))?)
            .map_err(|e| format!("{e:?}"))?;
        let tok3 = tok2
            .append_third_party_with_keypair(ext.public(), tp, kp(5, Alg::Ed).keypair())
            .map_err(|e| format!("{e:?}"))?;
        let v2 = tok3.block_version(2).map_err(|e| format!("block_version(2): {e:?}"))?;
        // the reloaded token reports the same
        let re = Biscuit::from(tok3.to_vec().map_err(|e| format!("{e:?}"))?, root.public()).map_err(|e| format!("reload: {e:?}"))?;
        for (i, vv) in [v0, v1, v2].into_iter().enumerate() {
            if re.block_version(i).ok() != Some(vv) {
                return Err(format!("reloaded block_version({i}) differs"));
            }
        }
        Ok((v0, v1, v2))
    });
    let (v0, v1, v2) = match r {
        Ok(Ok(x)) => x,
        Ok(Err(e)) => {
            let vio = v(format!("builder-path-error:{}", case.name), e);
            return if ctx.tolerate(&vio) { Ok(()) } else { Err(vio) };
        }
        Err(p) => return Err(v(format!("panic:{}", p.site()), format!("{}: {}", case.name, p.message))),
    };
    for (path, got, exp) in [("biscuit-builder", v0, expected), ("append", v1, expected), ("third-party", v2, expected_tp)] {
        rep.evals(1);
        if got != exp {
            let feature = case.name.split(':').next().unwrap_or("").to_string();
            let vio = v(
                format!("declared-version:{}:{}", if got < exp { "under" } else { "over" }, feature),
                format!("{} through {path}: declared {got}, the content needs {exp}", case.name),
            );
            if !ctx.tolerate(&vio) {
                return Err(vio);
            }
        }
    }
    Ok(())
}

/// correctly signed blocks declaring every version 0..=8 around content needing r
pub fn test_refusal(ctx: &Ctx, case: &FeatureCase, rep: &mut Report) -> Result<(), Violation> {
    let keys = vec![kp(1, Alg::Ed).public()];
    let needs = ref_version(&case.block, false);
    let root = kp(2, Alg::Ed);
    // obtain the payload the library emits for this content, then re-declare its version
    let payload = guard(|| -> Result<Vec<u8>, String> {
        let tok = case
            .block
            .to_biscuit_builder(&keys)
            .map_err(|e| format!("{e:?}"))?
            .build_with_key_pair(&root.keypair(), biscuit_auth::datalog::SymbolTable::default(), &kp(3, Alg::Ed).keypair())
            .map_err(|e| format!("{e:?}"))?;
        let w = WToken::decode(&tok.to_vec().map_err(|e| format!("{e:?}"))?)?;
        Ok(w.authority.block)
    });
    let payload = match payload {
        Ok(Ok(p)) => p,
        _ => return Ok(()),
    };
    let blk = schema::Block::decode(&payload[..]).map_err(|e| v("harness-decode".into(), format!("{e:?}")))?;
    let rsec = |k: KeyPlan| RSecret::from_keypair(&k.keypair());
    for d in 0..=8u32 {
        for position in [0usize, 1] {
            rep.evals(1);
            let mut b2 = blk.clone();
            b2.version = Some(d);
            let bytes2 = b2.encode_to_vec();
            let plain = schema::Block {
                symbols: vec![],
                context: None,
                version: Some(3),
                facts_v2: vec![],
                rules_v2: vec![],
                checks_v2: vec![],
                scope: vec![],
                public_keys: vec![],
            }
            .encode_to_vec();
            let mut signer = if position == 0 {
                RefSigner::new(&rsec(root), &rsec(kp(3, Alg::Ed)), &bytes2, 1, None)
            } else {
                let mut s = RefSigner::new(&rsec(root), &rsec(kp(3, Alg::Ed)), &plain, 1, None);
                s.append(&rsec(kp(4, Alg::Ed)), &bytes2, 1, None);
                s
            };
            let _ = &mut signer;
            let token_bytes = signer.bytes();
            let must_refuse = d < 3 || d > 6 || d < needs;
            let outcome = guard(|| -> Result<&'static str, String> {
                let tok = match Biscuit::from(&token_bytes, root.public()) {
                    Ok(t) => t,
                    Err(_) => return Ok("refused:from"),
                };
                let mut a = match tok.authorizer() {
                    Ok(a) => a,
                    Err(_) => return Ok("refused:authorizer"),
                };
                // it reached evaluation
                let _ = a.authorize();
                Ok("evaluated")
            });
            let outcome = match outcome {
                Ok(Ok(o)) => o,
                Ok(Err(e)) => return Err(v("harness".into(), e)),
                Err(p) => return Err(v(format!("panic:{}", p.site()), format!("{} declared {d}: {} at {}:{}", case.name, p.message, p.file, p.line))),
            };
            rep.class(format!("declared={d}:{}", outcome));
            if d != needs {
                rep.also_nontrivial(hash64(&(&case.name, d, position)));
            }
            if must_refuse && outcome == "evaluated" {
                let feature = case.name.split(':').next().unwrap_or("").to_string();
                let why = if d < 3 || d > 6 { "out-of-range".to_string() } else { format!("under-declared:{feature}") };
                let vio = v(
                    format!("block-evaluated-although-{why}"),
                    format!("{} (needs {needs}) declared {d} at block {position}: reached evaluation", case.name),
                );
                if !ctx.tolerate(&vio) {
                    return Err(vio);
                }
            }
            if !must_refuse && outcome != "evaluated" {
                let vio = v(
                    format!("correctly-declared-block-refused:{}", case.name.split(':').next().unwrap_or("")),
                    format!("{} (needs {needs}) declared {d} at block {position}: {outcome}", case.name),
                );
                if !ctx.tolerate(&vio) {
                    return Err(vio);
                }
            }
        }
    }
    Ok(())
}

/// signature versions: follow the rule and never decrease along the chain
pub fn test_sigversions(plan: &TokenPlan, rep: &mut Report) -> Result<(), Violation> {
    let (toks, fin) = match guard(|| build_history(plan)) {
        Ok(Ok(x)) => x,
        Ok(Err(e)) => return Err(v("api-build-error".into(), format!("{e:?}"))),
        Err(p) => return Err(v(format!("panic:{}", p.site()), p.message)),
    };
    let _ = toks;
    let bytes = fin.to_vec().map_err(|e| v("to_vec-error".into(), format!("{e:?}")))?;
    let w = WToken::decode(&bytes).map_err(|e| v("harness-decode".into(), e))?;
    let mut prev: Vec<u64> = vec![];
    let mut signing_alg = if plan.root.alg == Alg::Ed { ALG_ED25519 } else { ALG_P256 };
    rep.nontrivial(hash64(plan));
    rep.sample(json!({"shape": plan.shape()}));
    for (i, b) in w.all_blocks().iter().enumerate() {
        let ver = b.version_or_zero();
        let datalog = crate::c02::declared_datalog_version(&b.block);
        let exp = expected_signature_version(signing_alg, b.next_key.algorithm, b.external.is_some(), datalog, &prev);
        if ver != exp {
            return Err(v(
                "signature-version-rule".into(),
                format!("block {i} of {}: signature version {ver}, expected {exp} (datalog {:?})", plan.shape(), datalog),
            ));
        }
        if let Some(m) = prev.iter().max() {
            if ver < *m {
                return Err(v("signature-version-decreases".into(), format!("block {i} of {}: {ver} after {m}", plan.shape())));
            }
        }
        // declared datalog version equals RefVersion for the plan's block
        let needs = ref_version(plan.block(i), plan.ext_of(i).is_some()) as u64;
        if datalog != Some(needs) {
            return Err(v(
                format!("declared-version:{}:combination", if datalog.unwrap_or(0) < needs { "under" } else { "over" }),
                format!("block {i} of {}: declared {:?}, the content needs {needs}\n{:?}", plan.shape(), datalog, plan.block(i)),
            ));
        }
        rep.class(format!("sigversion={ver}"));
        prev.push(ver);
        signing_alg = b.next_key.algorithm;
    }
    Ok(())
}

pub fn run(ctx: &Ctx, replay: Option<&serde_json::Value>) {
    if let Some(r) = replay {
        match r["sub"].as_str() {
            Some("combinations") => {
                let plan: TokenPlan = serde_json::from_value(r["case"].clone()).expect("bad replay case");
                ctx.run_list("combinations", &[plan], |c, r| match test_sigversions(c, r) {
                    Err(vio) if ctx.tolerate(&vio) => Ok(()),
                    o => o,
                });
            }
            Some("refusal") => {
                let case: FeatureCase = serde_json::from_value(r["case"].clone()).expect("bad replay case");
                ctx.run_list("refusal", &[case], |c, r| test_refusal(ctx, c, r));
            }
            _ => {
                let case: FeatureCase = serde_json::from_value(r["case"].clone()).expect("bad replay case");
                ctx.run_list("declared", &[case], |c, r| test_declared(ctx, c, r));
            }
        }
        return;
    }
    ctx.set_rule("(a) one block per feature (every operator in rules and checks, every term type at depth 0-2 in facts / rule heads / rule bodies / check bodies / expressions, check kinds, scopes at block / rule / check level) through BiscuitBuilder, append and create_block: declared version == RefVersion; (b) the same blocks re-declared with every version 0..=8, correctly signed by RefSigner as authority or second block: out-of-range or under-declared blocks must not reach evaluation, correctly declared ones must; (c) generated TokenPlans (all key-algorithm sequences, third-party blocks, 3.3 content): signature versions follow the rule, never decrease, and declared versions equal RefVersion; non-trivial = content needs more than 3.0, or declared != needed; distinct = (feature, declared version, position)");
    ctx.extra("exhaustive_feature_grid", json!(true));
    let feats: Vec<FeatureCase> = features().into_iter().map(|(name, block)| FeatureCase { name, block }).collect();
    ctx.extra("features", json!(feats.len()));
    ctx.run_list("declared", &feats, |c, r| test_declared(ctx, c, r));
    ctx.run_list("refusal", &feats, |c, r| test_refusal(ctx, c, r));
    let cases = ctx.tier.pick(100_000, 1_500_000);
    let cfg = GenCfg {
        max_facts: 2,
        max_rules: 2,
        max_checks: 2,
        typed: false,
        ..GenCfg::default()
    };
    ctx.run_prop(
        "combinations",
        cases,
        || {
            let cfg = cfg.clone();
            from_tape(1400, move |t: &mut Tape| {
                let mut cfg = cfg.clone();
                // a third of the plans avoid 3.3 content so that version-0 signatures occur
                if t.chance(1, 3) {
                    cfg.v33 = false;
                    cfg.closures = false;
                    cfg.typed = true;
                }
                gen_token_plan(t, &cfg, 4)
            })
        },
        |c, r| match test_sigversions(c, r) {
            Err(vio) if ctx.tolerate(&vio) => Ok(()),
            o => o,
        },
    );
}
