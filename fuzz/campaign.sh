#!/bin/bash
# campaign.sh <runs-per-target> : coverage-guided stage of `./check C09 thorough`
#   builds the four libFuzzer targets from /repo's working tree, seeds a FRESH corpus per target from the generators
#   (VERIF_SEED), runs each target for <runs> executions (-seed=VERIF_SEED pins libFuzzer only approximately; the saved
#   input is the reproducible unit), writes fuzz/last_campaign.json.
#   exit 0 = no crash, 1 = crash (VIOLATION line printed, artifact = replay), 2 = build problem / timeout / out of memory
# campaign.sh --replay <artifact> : re-run one saved input
set -u
HERE="$(cd "$(dirname "${BASH_SOURCE[0]}")" && pwd)"
cd "$HERE" || exit 2
export CARGO_NET_OFFLINE=true
export RUSTFLAGS="--cfg biscuit_auth_biscuit_rust_verif -Aunexpected_cfgs"
TARGETS="c09_block c09_snapshot c09_datalog c09_token"
SEED=${VERIF_SEED:-1}; [ "$SEED" = 0 ] && SEED=1

build() {
  if ! cargo +nightly fuzz build --fuzz-dir . > target-build.log 2>&1; then
    echo "FUZZ BUILD FAILED (see fuzz/target-build.log)" >&2; tail -20 target-build.log >&2; exit 2
  fi
}

if [ "${1:-}" = "--replay" ]; then
  art="$2"
  t=$(basename "$(dirname "$art")")
  build
  out=$(cargo +nightly fuzz run --fuzz-dir . "$t" "$art" -- -timeout=60 -rss_limit_mb=8192 2>&1); rc=$?
  echo "$out" | tail -15
  if [ $rc -ne 0 ]; then echo "VIOLATION property=C09 replay=$art"; exit 1; fi
  exit 0
fi

RUNS=${1:-100000}
build
rm -rf corpus artifacts; mkdir -p corpus artifacts
pids=""
for t in $TARGETS; do
  mkdir -p corpus/$t artifacts/$t
  ( VERIF_WRITE_CORPUS=corpus/$t VERIF_CORPUS_SIZE=300 cargo +nightly fuzz run --fuzz-dir . $t -- -runs=$RUNS -seed=$SEED -max_len=4096 -len_control=0 \
      -timeout=30 -rss_limit_mb=8192 -artifact_prefix=artifacts/$t/ -print_final_stats=1 > artifacts/$t.log 2>&1; echo $? > artifacts/$t.rc ) &
  pids="$pids $!"
done
wait $pids
rc=0
python3 - "$RUNS" "$SEED" $TARGETS <<'PY' || rc=$?
import json, re, sys, os, glob
runs, seed, targets = int(sys.argv[1]), int(sys.argv[2]), sys.argv[3:]
out = {"engine": "libFuzzer (cargo-fuzz, address sanitizer)", "runs_requested_per_target": runs, "seed": seed, "targets": {}}
worst = 0
for t in targets:
    log = open(f"artifacts/{t}.log", errors="replace").read()
    rc = int(open(f"artifacts/{t}.rc").read().strip() or 2)
    st = {"exit": rc}
    m = re.findall(r"#(\d+)\s+(?:DONE|pulse|NEW|REDUCE|INITED)\s+cov: (\d+) ft: (\d+) corp: (\d+)", log)
    if m:
        st.update(executions=int(m[-1][0]), coverage_edges=int(m[-1][1]), features=int(m[-1][2]), corpus_entries=int(m[-1][3]))
    m = re.search(r"stat::number_of_executed_units:\s*(\d+)", log)
    if m: st["executions"] = int(m.group(1))
    st["seed_corpus_files"] = len(glob.glob(f"corpus/{t}/seed-*"))
    arts = sorted(glob.glob(f"artifacts/{t}/*"))
    st["artifacts"] = [os.path.basename(a) for a in arts]
    out["targets"][t] = st
    crashes = [a for a in arts if os.path.basename(a).startswith(("crash-", "leak-"))]
    slow = [a for a in arts if os.path.basename(a).startswith(("timeout-", "oom-", "slow-unit-"))]
    for a in crashes:
        print(f"VIOLATION property=C09 replay={os.path.abspath(a)}")
        tail = [l for l in log.splitlines() if "panicked" in l or "ERROR: " in l or "SUMMARY" in l][-3:]
        print("  signature: fuzz-crash:" + t)
        print("  detail: " + " | ".join(tail)[:1500])
        worst = max(worst, 1)
    if not crashes and (rc != 0 or [a for a in slow if not os.path.basename(a).startswith("slow-unit-")]):
        print(f"INCONCLUSIVE fuzz target {t}: exit {rc}, artifacts {st['artifacts']} (timeouts and out-of-memory are not reported as violations)")
        worst = max(worst, 2) if worst != 1 else 1
json.dump(out, open("last_campaign.json", "w"), indent=1)
sys.exit(worst)
PY
exit $rc
