//! bytes = one mode byte + a protobuf `Block` payload; the payload is signed by the reference
//! signer (as authority / first-party / third-party block, both signature versions), so that
//! coverage-guided mutation of the payload explores the code behind the signature gate
#![no_main]
use libfuzzer_sys::fuzz_target;
use prost::Message;
mod common;
use biscuit_auth::format::schema;
use vcore::keys::{Alg, KeyPlan};
use vcore::refcrypto::{RSecret, RefSigner};

fn kp(i: u64, alg: Alg) -> RSecret {
    RSecret::from_keypair(&KeyPlan { alg, seed: 0xc0900 + i }.keypair())
}
fn root() -> RSecret {
    // the root of the sweep in c09.rs
    RSecret::from_keypair(&KeyPlan { alg: Alg::Ed, seed: 0xc09 }.keypair())
}

fn sign(mode: u8, payload: &[u8]) -> Vec<u8> {
    let plain = schema::Block {
        symbols: vec!["plain".into()],
        context: None,
        version: Some(3),
        facts_v2: vec![],
        rules_v2: vec![],
        checks_v2: vec![],
        scope: vec![],
        public_keys: vec![],
    }
    .encode_to_vec();
    let alg = if mode & 8 != 0 { Alg::P256 } else { Alg::Ed };
    let version = if mode & 4 != 0 { 0 } else { 1 };
    let mut signer;
    match mode & 3 {
        0 => signer = RefSigner::new(&root(), &kp(1, alg), payload, version, None),
        1 => {
            signer = RefSigner::new(&root(), &kp(1, Alg::Ed), &plain, version, None);
            signer.append(&kp(2, alg), payload, 1, None);
        }
        2 => {
            signer = RefSigner::new(&root(), &kp(1, Alg::Ed), &plain, 1, None);
            let ext = kp(3, alg);
            signer.append(&kp(2, Alg::Ed), payload, 1, Some(&ext));
        }
        _ => {
            signer = RefSigner::new(&root(), &kp(1, Alg::Ed), payload, 1, None);
            let ext = kp(3, Alg::Ed);
            signer.append(&kp(4, Alg::Ed), payload, 1, Some(&ext));
        }
    }
    if mode & 16 != 0 {
        signer.seal();
    }
    signer.bytes()
}

fuzz_target!(
    init: {
        common::write_corpus("block", |t| {
            let wild = *t.choose(&[0u32, 1, 4, 10]);
            let blk = vcore::hostile::Adv { t, wild }.block();
            let mut v = vec![t.raw() as u8];
            v.extend(blk.encode_to_vec());
            Some(v)
        });
    },
    |data: &[u8]| {
        if data.len() < 2 {
            return;
        }
        let payload = &data[1..];
        if schema::Block::decode(payload).is_err() {
            return;
        }
        common::run(common::Input::Token(sign(data[0], payload)));
    }
);
