//! bytes = a serialized token, given to every token entry point (the signature gate stops most
//! mutants: this target explores the container decoder and the gate itself)
#![no_main]
use libfuzzer_sys::fuzz_target;
mod common;

fuzz_target!(
    init: {
        common::write_corpus("token", |t| match common::c09::gen_input(t) {
            (common::Input::Token(b), _) => Some(b),
            _ => None,
        });
    },
    |data: &[u8]| {
        common::run(common::Input::Token(data.to_vec()));
    }
);
