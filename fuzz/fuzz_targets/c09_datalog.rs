//! bytes = Datalog source text, given to every text entry point
#![no_main]
use libfuzzer_sys::fuzz_target;
mod common;

fuzz_target!(
    init: {
        common::write_corpus("datalog", |t| match common::c09::gen_input(t) {
            (common::Input::Datalog(s), _) => Some(s.into_bytes()),
            _ => None,
        });
    },
    |data: &[u8]| {
        if let Ok(s) = std::str::from_utf8(data) {
            common::run(common::Input::Datalog(s.to_string()));
        }
    }
);
