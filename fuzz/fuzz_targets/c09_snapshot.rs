//! bytes = an authorizer snapshot (or saved policies when the first byte is odd)
#![no_main]
use libfuzzer_sys::fuzz_target;
use prost::Message;
mod common;

fuzz_target!(
    init: {
        common::write_corpus("snapshot", |t| {
            let wild = *t.choose(&[0u32, 1, 3, 8]);
            if t.chance(1, 4) {
                let mut v = vec![1u8];
                v.extend(vcore::hostile::Adv { t, wild }.policies().encode_to_vec());
                Some(v)
            } else {
                let mut v = vec![0u8];
                v.extend(vcore::hostile::Adv { t, wild }.snapshot().encode_to_vec());
                Some(v)
            }
        });
    },
    |data: &[u8]| {
        if data.is_empty() {
            return;
        }
        if data[0] & 1 == 0 {
            common::run(common::Input::Snapshot(data[1..].to_vec()));
        } else {
            common::run(common::Input::Policies(data[1..].to_vec()));
        }
    }
);
