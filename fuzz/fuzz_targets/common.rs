// shared by the C09 fuzz targets: the sweep of harness/vcheck/src/c09.rs, the seed corpus writer
#[path = "../../harness/vcheck/src/c09.rs"]
#[allow(dead_code)]
pub mod c09;

pub use c09::{Input, Sweep};

/// run the entry points and the accessor sweep; any panic is a finding. (libFuzzer's panic hook
/// aborts at the first panic, before the sweep's own catch_unwind sees it; the assertion below
/// covers builds where that hook is not installed.)
pub fn run(input: Input) {
    let mut s = Sweep {
        panics: vec![],
        reached: vec![],
    };
    s.run(&input);
    if let Some((entry, site, msg)) = s.panics.first() {
        panic!("C09: {entry} panicked at {site}: {msg}");
    }
}

/// when VERIF_WRITE_CORPUS names a directory, write `n` generated seeds of the wanted kind there
pub fn write_corpus(kind: &str, mut make: impl FnMut(&mut vcore::tape::Tape) -> Option<Vec<u8>>) {
    let Ok(dir) = std::env::var("VERIF_WRITE_CORPUS") else { return };
    let n: usize = std::env::var("VERIF_CORPUS_SIZE").ok().and_then(|x| x.parse().ok()).unwrap_or(300);
    let seed: u64 = vcore::util::verif_seed();
    use rand::{RngCore, SeedableRng};
    let mut rng = rand_chacha::ChaCha8Rng::from_seed(vcore::util::derive_seed(seed, &format!("fuzz-corpus/{kind}"), 0));
    let _ = std::fs::create_dir_all(&dir);
    let mut written = 0;
    let mut tries = 0;
    while written < n && tries < 50 * n {
        tries += 1;
        let len = (rng.next_u32() % 700) as usize;
        let data: Vec<u16> = (0..len).map(|_| rng.next_u32() as u16).collect();
        let mut t = vcore::tape::Tape::new(data);
        if let Some(bytes) = make(&mut t) {
            if bytes.len() <= 4096 {
                let _ = std::fs::write(format!("{dir}/seed-{kind}-{written:04}"), bytes);
                written += 1;
            }
        }
    }
}
